//! `fsgen` — file-tree layouts decoded from a choice tape, plus string-level path helpers.
//!
//! Paths are `/`-separated strings relative to a sandbox base (a memory `Resources` or a
//! temporary directory).  Nothing here calls darklua: the helpers are the harness's own,
//! independent reading of lexical path normalisation and of `Path::extension`.

use crate::tape::Tape;

// ------------------------------------------------------------------------------ path helpers

/// lexical normalisation: drops empty and `.` components, resolves `..` against the
/// preceding component, keeps a leading `/`
pub fn clean(p: &str) -> String {
    let abs = p.starts_with('/');
    let mut out: Vec<&str> = vec![];
    for c in p.split('/') {
        match c {
            "" | "." => {}
            ".." => {
                if matches!(out.last(), Some(l) if *l != "..") {
                    out.pop();
                } else if !abs {
                    out.push("..");
                }
            }
            c => out.push(c),
        }
    }
    let s = out.join("/");
    if abs {
        format!("/{}", s)
    } else {
        s
    }
}

pub fn join(a: &str, b: &str) -> String {
    if a.is_empty() {
        b.to_string()
    } else if b.is_empty() {
        a.to_string()
    } else {
        format!("{}/{}", a, b)
    }
}

pub fn parent(p: &str) -> &str {
    match p.rfind('/') {
        Some(i) => &p[..i],
        None => "",
    }
}

pub fn file_name(p: &str) -> &str {
    match p.rfind('/') {
        Some(i) => &p[i + 1..],
        None => p,
    }
}

/// the extension of a file name the way `std::path::Path::extension` defines it: none when
/// there is no dot, none when the only dot is the first character, else the text after the
/// last dot (possibly empty)
pub fn extension(name: &str) -> Option<&str> {
    let name = file_name(name);
    match name.rfind('.') {
        None | Some(0) => None,
        Some(i) => Some(&name[i + 1..]),
    }
}

/// is this the name of a file a batch run has to pick up? (documented: files ending with
/// `.lua` / `.luau`)
pub fn is_lua_name(name: &str) -> bool {
    matches!(extension(name), Some("lua") | Some("luau"))
}

/// `p` is `dir` or lies below it (component-wise); the empty `dir` contains everything relative
pub fn is_under(p: &str, dir: &str) -> bool {
    dir.is_empty() || p == dir || (p.len() > dir.len() && p.starts_with(dir) && p.as_bytes()[dir.len()] == b'/')
}

/// `p` relative to `dir` (requires `is_under(p, dir)`)
pub fn strip<'a>(p: &'a str, dir: &str) -> &'a str {
    if dir.is_empty() {
        p
    } else if p == dir {
        ""
    } else {
        &p[dir.len() + 1..]
    }
}

/// a `./` or `../` prefixed path leading from directory `from_dir` to `to`
pub fn relative_from(from_dir: &str, to: &str) -> String {
    let a: Vec<&str> = from_dir.split('/').filter(|s| !s.is_empty()).collect();
    let b: Vec<&str> = to.split('/').filter(|s| !s.is_empty()).collect();
    let mut k = 0;
    while k < a.len() && k + 1 < b.len() && a[k] == b[k] {
        k += 1;
    }
    let ups = a.len() - k;
    let mut parts: Vec<String> = vec![];
    if ups == 0 {
        parts.push(".".into());
    }
    for _ in 0..ups {
        parts.push("..".into());
    }
    for c in &b[k..] {
        parts.push(c.to_string());
    }
    parts.join("/")
}

// ------------------------------------------------------------------------------ name pools

pub const ROOT_NAMES: [&str; 7] = ["src", "my src", "prj.v2", "ソース", "proj.lua", "in-put", "Ünï"];

pub const DIR_NAMES: [&str; 14] = [
    "lib", "sub dir", "päck", "v1.2", "日本", "a.lua", "deep", "x.luau", "ünï cödé", "-dash", "with.dots.d", "init", " lead", "b",
];

pub const LUA_STEMS: [&str; 18] = [
    "main", "init", "a", "b c", "mod.test", "ünï", "数", "x.y.z", "lib_x", "UPPER", "-x", "a[1]", "50%", "b", "util", "trail ", "a#b", "é",
];

/// names that must NOT be picked up by a batch run (no / other / differently cased extension,
/// backup suffixes); the ambiguous hidden files `.lua` / `.luau` are deliberately not generated
pub const OTHER_NAMES: [&str; 12] = [
    "notes.txt", "data.json", "README", ".hidden", "x.LUA", "x.lua.bak", "script.luax", "cfg.toml", "luau", "lua", "a.lua~", "b.Luau",
];

// ------------------------------------------------------------------------------ tree layout

#[derive(Clone, Debug, Default)]
pub struct Layout {
    /// the root directory name (first component of every path below)
    pub root: String,
    /// all directories, `root` first; each is `/`-joined from the root
    pub dirs: Vec<String>,
    /// Lua / Luau file paths
    pub lua: Vec<String>,
    /// other file paths (never to be processed)
    pub other: Vec<String>,
}

fn depth_below_root(dir: &str) -> usize {
    dir.matches('/').count()
}

/// a tree of at most `max_lua` Lua files at depth <= 3 below the root, biased towards putting
/// several files into the same directory
pub fn gen_layout(t: &mut Tape, max_lua: usize, max_other: usize) -> Layout {
    let root = t.pick(&ROOT_NAMES).to_string();
    let mut dirs = vec![root.clone()];
    let extra_dirs = t.weighted(&[2, 4, 4, 3, 1]);
    for _ in 0..extra_dirs {
        let candidates: Vec<String> = dirs.iter().filter(|d| depth_below_root(d) < 2).cloned().collect();
        let p = t.pick(&candidates).clone();
        let mut k = t.choose(DIR_NAMES.len());
        let mut tries = 0;
        while dirs.contains(&join(&p, DIR_NAMES[k])) && tries < DIR_NAMES.len() {
            k = (k + 1) % DIR_NAMES.len();
            tries += 1;
        }
        let d = join(&p, DIR_NAMES[k]);
        if !dirs.contains(&d) {
            dirs.push(d);
        }
    }
    let focus = t.choose(dirs.len());
    // few single-file trees, the rest spread over 2..=max_lua
    let n = if t.bool(24) { 1 } else { 2 + t.choose(max_lua.max(2) - 1) };
    let mut lua: Vec<String> = vec![];
    let taken = |dirs: &Vec<String>, lua: &Vec<String>, other: &Vec<String>, p: &String| dirs.contains(p) || lua.contains(p) || other.contains(p);
    let mut other: Vec<String> = vec![];
    for _ in 0..n {
        let d = if t.bool(150) { dirs[focus].clone() } else { t.pick(&dirs).clone() };
        let mut k = t.choose(LUA_STEMS.len());
        let ext = if t.bool(90) { "luau" } else { "lua" };
        let mut tries = 0;
        loop {
            let p = join(&d, &format!("{}.{}", LUA_STEMS[k], ext));
            if !taken(&dirs, &lua, &other, &p) {
                lua.push(p);
                break;
            }
            k = (k + 1) % LUA_STEMS.len();
            tries += 1;
            if tries > LUA_STEMS.len() {
                break;
            }
        }
    }
    let m = t.choose(max_other + 1);
    for _ in 0..m {
        let d = if t.bool(128) { dirs[focus].clone() } else { t.pick(&dirs).clone() };
        let k = t.choose(OTHER_NAMES.len());
        let p = join(&d, OTHER_NAMES[k]);
        if !taken(&dirs, &lua, &other, &p) {
            other.push(p);
        }
    }
    Layout { root, dirs, lua, other }
}

#[cfg(test)]
mod tests {
    use super::*;

    #[test]
    fn clean_paths() {
        assert_eq!(clean("./src"), "src");
        assert_eq!(clean("src/"), "src");
        assert_eq!(clean("src/../out/./x"), "out/x");
        assert_eq!(clean("/a/b/../c"), "/a/c");
        assert_eq!(clean("../a"), "../a");
    }

    #[test]
    fn extensions() {
        assert_eq!(extension("a/b.lua"), Some("lua"));
        assert_eq!(extension(".lua"), None);
        assert_eq!(extension("x.lua.bak"), Some("bak"));
        assert_eq!(extension("luau"), None);
        assert_eq!(extension("a.b/c"), None);
        assert!(is_lua_name("x.y.z.luau"));
        assert!(!is_lua_name("x.LUA"));
        for n in OTHER_NAMES {
            assert!(!is_lua_name(n), "{}", n);
            assert_eq!(std::path::Path::new(n).extension().and_then(|e| e.to_str()), extension(n));
        }
    }

    #[test]
    fn relative() {
        assert_eq!(relative_from("src", "src/a.lua"), "./a.lua");
        assert_eq!(relative_from("src/sub", "src/a.lua"), "../a.lua");
        assert_eq!(relative_from("src/sub", "src/lib/a.lua"), "../lib/a.lua");
        assert_eq!(relative_from("src", "src/lib/a.lua"), "./lib/a.lua");
    }
}
