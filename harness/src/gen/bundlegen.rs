//! `bundlegen` — module graphs for C05 (a bundle behaves like the program with its modules
//! required normally), decoded from a choice tape.
//!
//! A graph is a set of in-memory files (one entry, Lua/Luau modules, data files), a configuration
//! (require mode, generator, rule pipeline, excludes) and the GROUND TRUTH of every require the
//! generator wrote: `(requiring file, require string) -> target file` (or "external" for excluded
//! requires).  Spellings are chosen so that the target is known by construction (unique stems,
//! lexical `./`, `../`, `x/../` noise, `dir` for `dir/init.lua`, `@self/` in module-folder files
//! under the luau mode) and every one is cross-checked against the documentation-only resolver
//! of C15 (`model::resolver`); a graph with a spelling the model does not resolve uniquely to the
//! intended file is flagged `ambiguous` and discarded by the check.
//!
//! Text conventions: module bodies never call a host function at the top level (no externally
//! visible effect at require time); the functions they return may `emit`.  Module state is
//! observable through a shared `counter` leaf module that every module bumps once when its body
//! runs, through identity tokens and through closures over module-level locals.  Names that
//! matter collide on purpose: `value`, `M`, `helper`, `counter` are module-level locals of every
//! module and of the entry.  Never generated: a variable named `_`, `and`/`or` with a constant
//! left operand (known findings of the default rules, C01), modules returning nil or false.

use crate::model::resolver::{self, ModeSpec, World};
use crate::tape::Tape;
use serde_json::{json, Value};
use std::collections::{BTreeMap, BTreeSet};

// ------------------------------------------------------------------------------------ data values

#[derive(Clone, Debug, PartialEq)]
pub enum DVal {
    Num(f64),
    Str(String),
    Bool(bool),
    Arr(Vec<DVal>),
    Obj(Vec<(String, DVal)>),
}

impl DVal {
    pub fn to_json(&self) -> Value {
        match self {
            DVal::Num(n) => json!({"n": n}),
            DVal::Str(s) => json!({"s": s}),
            DVal::Bool(b) => json!({"b": b}),
            DVal::Arr(a) => json!({"a": a.iter().map(|x| x.to_json()).collect::<Vec<_>>()}),
            DVal::Obj(o) => json!({"o": o.iter().map(|(k, v)| json!([k, v.to_json()])).collect::<Vec<_>>()}),
        }
    }
    pub fn from_json(v: &Value) -> Option<DVal> {
        let o = v.as_object()?;
        if let Some(n) = o.get("n") {
            return Some(DVal::Num(n.as_f64()?));
        }
        if let Some(s) = o.get("s") {
            return Some(DVal::Str(s.as_str()?.to_string()));
        }
        if let Some(b) = o.get("b") {
            return Some(DVal::Bool(b.as_bool()?));
        }
        if let Some(a) = o.get("a") {
            return a.as_array()?.iter().map(DVal::from_json).collect::<Option<Vec<_>>>().map(DVal::Arr);
        }
        if let Some(f) = o.get("o") {
            let mut out = vec![];
            for e in f.as_array()? {
                let e = e.as_array()?;
                out.push((e.first()?.as_str()?.to_string(), DVal::from_json(e.get(1)?)?));
            }
            return Some(DVal::Obj(out));
        }
        None
    }

    /// the value as a Lua expression (used by the MODEL require for data files)
    pub fn to_lua(&self) -> String {
        match self {
            DVal::Num(n) => {
                if *n < 0.0 {
                    format!("(-{:?})", -n)
                } else {
                    format!("{:?}", n)
                }
            }
            DVal::Str(s) => lua_quote(s),
            DVal::Bool(b) => b.to_string(),
            DVal::Arr(a) => format!("{{{}}}", a.iter().map(|x| x.to_lua()).collect::<Vec<_>>().join(", ")),
            DVal::Obj(o) => format!("{{{}}}", o.iter().map(|(k, v)| format!("[{}] = {}", lua_quote(k), v.to_lua())).collect::<Vec<_>>().join(", ")),
        }
    }
}

/// a Lua double-quoted literal for arbitrary text (decimal escapes for everything unusual)
pub fn lua_quote(s: &str) -> String {
    let mut o = String::from("\"");
    for b in s.bytes() {
        match b {
            b'"' => o.push_str("\\\""),
            b'\\' => o.push_str("\\\\"),
            b'\n' => o.push_str("\\n"),
            0x20..=0x7e => o.push(b as char),
            _ => o.push_str(&format!("\\{:03}", b)),
        }
    }
    o.push('"');
    o
}

fn json_quote(s: &str) -> String {
    serde_json::to_string(s).unwrap()
}

fn num_text(n: f64) -> String {
    if n.fract() == 0.0 && n.abs() < 1e15 {
        format!("{}", n as i64)
    } else {
        format!("{:?}", n)
    }
}

fn render_json(v: &DVal, pretty: bool, depth: usize) -> String {
    let (nl, ind, ind_end) = if pretty { ("\n".to_string(), "  ".repeat(depth + 1), "  ".repeat(depth)) } else { (String::new(), String::new(), String::new()) };
    match v {
        DVal::Num(n) => num_text(*n),
        DVal::Str(s) => json_quote(s),
        DVal::Bool(b) => b.to_string(),
        DVal::Arr(a) if a.is_empty() => "[]".into(),
        DVal::Obj(o) if o.is_empty() => "{}".into(),
        DVal::Arr(a) => format!("[{}{}{}{}]", nl, a.iter().map(|x| format!("{}{}", ind, render_json(x, pretty, depth + 1))).collect::<Vec<_>>().join(&format!(",{}", if pretty { "\n" } else { " " })), nl, ind_end),
        DVal::Obj(o) => format!("{{{}{}{}{}}}", nl, o.iter().map(|(k, x)| format!("{}{}: {}", ind, json_quote(k), render_json(x, pretty, depth + 1))).collect::<Vec<_>>().join(&format!(",{}", if pretty { "\n" } else { " " })), nl, ind_end),
    }
}

fn json5_string(s: &str) -> String {
    if s.contains('\'') || s.contains('\\') || s.contains('\n') {
        json_quote(s)
    } else {
        format!("'{}'", s)
    }
}

/// JSON5 surface: comments, unquoted keys, single quotes, trailing commas, leading `+`/`.5`
fn render_json5(v: &DVal, depth: usize) -> String {
    let ind = "  ".repeat(depth + 1);
    let ind_end = "  ".repeat(depth);
    match v {
        DVal::Num(n) => {
            if *n > 0.0 && n.fract() == 0.0 {
                format!("+{}", num_text(*n))
            } else {
                num_text(*n)
            }
        }
        DVal::Str(s) => json5_string(s),
        DVal::Bool(b) => b.to_string(),
        DVal::Arr(a) if a.is_empty() => "[]".into(),
        DVal::Obj(o) if o.is_empty() => "{}".into(),
        DVal::Arr(a) => format!("[\n{}{}]", a.iter().map(|x| format!("{}{},\n", ind, render_json5(x, depth + 1))).collect::<String>(), ind_end),
        DVal::Obj(o) => format!("{{\n{}{}}}", o.iter().map(|(k, x)| format!("{}{}: {}, // {}\n", ind, k, render_json5(x, depth + 1), k)).collect::<String>(), ind_end),
    }
}

fn render_yaml(v: &DVal) -> String {
    // block style at the top two levels, flow (JSON) style below
    fn scalar_or_flow(v: &DVal) -> String {
        render_json(v, false, 0)
    }
    match v {
        DVal::Obj(o) if !o.is_empty() => {
            let mut s = String::from("# generated\n");
            for (k, x) in o {
                match x {
                    DVal::Arr(a) if !a.is_empty() => {
                        s.push_str(&format!("{}:\n", k));
                        for e in a {
                            s.push_str(&format!("  - {}\n", scalar_or_flow(e)));
                        }
                    }
                    DVal::Obj(f) if !f.is_empty() => {
                        s.push_str(&format!("{}:\n", k));
                        for (k2, e) in f {
                            s.push_str(&format!("  {}: {}\n", k2, scalar_or_flow(e)));
                        }
                    }
                    other => s.push_str(&format!("{}: {}\n", k, scalar_or_flow(other))),
                }
            }
            s
        }
        other => format!("{}\n", scalar_or_flow(other)),
    }
}

fn toml_value(v: &DVal) -> String {
    match v {
        DVal::Num(n) => num_text(*n),
        DVal::Str(s) => json_quote(s),
        DVal::Bool(b) => b.to_string(),
        DVal::Arr(a) => format!("[{}]", a.iter().map(toml_value).collect::<Vec<_>>().join(", ")),
        DVal::Obj(o) => format!("{{ {} }}", o.iter().map(|(k, x)| format!("{} = {}", k, toml_value(x))).collect::<Vec<_>>().join(", ")),
    }
}

/// the top level of a TOML document is a table: scalars / arrays first, sub-tables as sections
fn render_toml(v: &DVal, sections: bool) -> String {
    let DVal::Obj(o) = v else { return String::new() };
    let mut s = String::from("# generated\n");
    let mut later = vec![];
    for (k, x) in o {
        match x {
            DVal::Obj(f) if sections && !f.is_empty() => later.push((k, f)),
            other => s.push_str(&format!("{} = {}\n", k, toml_value(other))),
        }
    }
    for (k, f) in later {
        s.push_str(&format!("\n[{}]\n", k));
        for (k2, x) in f {
            s.push_str(&format!("{} = {}\n", k2, toml_value(x)));
        }
    }
    s
}

const DATA_KEYS: [&str; 8] = ["name", "size", "items", "flags", "nested", "title", "enabled", "ratio"];
const DATA_STRINGS: [&str; 7] = ["hello", "with space", "", "x-y_z", "line1\nline2", "quote\"inside", "back\\slash"];

fn gen_dval(t: &mut Tape, depth: usize) -> DVal {
    let w: [u32; 5] = if depth >= 2 { [4, 4, 2, 0, 0] } else { [4, 4, 2, 3, 3] };
    match t.weighted(&w) {
        0 => {
            let k = t.int(-3, 100) as f64;
            if t.bool(60) {
                DVal::Num(k + 0.5)
            } else {
                DVal::Num(k)
            }
        }
        1 => DVal::Str(t.pick(&DATA_STRINGS).to_string()),
        2 => DVal::Bool(t.bool(128)),
        3 => DVal::Arr((0..t.choose(4)).map(|_| gen_dval(t, depth + 1)).collect()),
        _ => gen_dobj(t, depth + 1, 0),
    }
}

fn gen_dobj(t: &mut Tape, depth: usize, min: usize) -> DVal {
    let n = min + t.choose(4);
    let start = t.choose(DATA_KEYS.len());
    DVal::Obj((0..n).map(|i| (DATA_KEYS[(start + i) % DATA_KEYS.len()].to_string(), gen_dval(t, depth))).collect())
}

const TEXTS: [&str; 9] = [
    "plain text",
    "first line\nsecond line\n",
    "",
    "]] tricky ]=] \"q\" \\ 'end'",
    "tab\there -- not a comment",
    // the content is the value, byte for byte: CR LF, a lone CR, leading and trailing blank lines
    "line one\r\nline two\r\n",
    "\n\nleading and trailing\n\n",
    "mac\rline \r\n mixed\n",
    "caf\u{e9} \u{2603} \u{feff}bom",
];

// ------------------------------------------------------------------------------------ graph

#[derive(Clone, Debug, PartialEq)]
pub struct Truth {
    pub from: String,
    pub req: String,
    /// None = an excluded require (stays a real require call; both runs see it as external)
    pub to: Option<String>,
}

#[derive(Clone, Debug)]
pub struct Graph {
    pub files: BTreeMap<String, String>,
    pub entry: String,
    pub luau_mode: bool,
    /// JSON5 fragment for the `generator` key
    pub generator: String,
    pub default_rules: bool,
    pub excludes: Vec<String>,
    /// sources (path mode) / aliases (luau mode); non-empty only with a configuration FILE
    pub aliases: BTreeMap<String, String>,
    /// Some(path): the configuration is written to this file and read from there
    pub config_path: Option<String>,
    pub truth: Vec<Truth>,
    /// expected value of every data file (txt: a string)
    pub data: BTreeMap<String, DVal>,
    pub features: BTreeSet<String>,
    pub lua_modules: usize,
    pub observes_state: bool,
    /// a spelling is not resolved uniquely to the intended file by the documentation-only model
    pub ambiguous: Option<String>,
    pub avoided: BTreeSet<&'static str>,
}

impl Graph {
    pub fn config_text(&self) -> String {
        config_text_with(self.luau_mode, &self.generator, self.default_rules, &self.excludes, &self.aliases)
    }
    /// number of require literals that are written in several files and reach DIFFERENT files
    /// (compared after lexical normalisation, `./x` = `././x` = `./d/../x`)
    pub fn same_literal_different_file(&self) -> usize {
        let mut by_literal: BTreeMap<String, BTreeSet<&str>> = BTreeMap::new();
        for tr in &self.truth {
            if let Some(to) = &tr.to {
                let head = if tr.req.starts_with("../") || tr.req.starts_with("./") { "./" } else { "" };
                by_literal.entry(format!("{}{}", head, resolver::normalize(&tr.req))).or_default().insert(to.as_str());
            }
        }
        by_literal.values().filter(|f| f.len() >= 2).count()
    }
    /// number of files required from >= 2 textual sites
    pub fn shared_targets(&self) -> usize {
        let mut n: BTreeMap<&str, usize> = BTreeMap::new();
        for tr in &self.truth {
            if let Some(to) = &tr.to {
                *n.entry(to.as_str()).or_insert(0) += 1;
            }
        }
        n.values().filter(|c| **c >= 2).count()
    }
}

pub fn config_text(luau_mode: bool, generator: &str, default_rules: bool, excludes: &[String]) -> String {
    config_text_with(luau_mode, generator, default_rules, excludes, &BTreeMap::new())
}

pub fn config_text_with(luau_mode: bool, generator: &str, default_rules: bool, excludes: &[String], aliases: &BTreeMap<String, String>) -> String {
    let mode = if aliases.is_empty() {
        format!("\"{}\"", if luau_mode { "luau" } else { "path" })
    } else {
        let map = aliases.iter().map(|(k, v)| format!("{}: {}", json_quote(k), json_quote(v))).collect::<Vec<_>>().join(", ");
        if luau_mode {
            format!("{{ name: \"luau\", aliases: {{ {} }} }}", map)
        } else {
            format!("{{ name: \"path\", sources: {{ {} }} }}", map)
        }
    };
    let rules = if default_rules { crate::dl::quote_rules(&crate::dl::DEFAULT_RULES).join(", ") } else { String::new() };
    format!(
        "{{ rules: [{}], generator: {}, bundle: {{ require_mode: {}, excludes: [{}] }} }}",
        rules,
        generator,
        mode,
        excludes.iter().map(|e| json_quote(e)).collect::<Vec<_>>().join(", ")
    )
}

#[derive(Clone, Copy, Debug, Default)]
pub struct Avoid {
    /// known finding: a local `require` declared inside a MODULE is ignored by the bundler
    pub module_shadow: bool,
    /// known finding: a source / alias location written `./dir` (the documented form) gives the
    /// files reached through it a second module instance; with the switch the location is `dir`
    pub alias_dot_location: bool,
}

#[derive(Clone, Debug, PartialEq)]
enum Kind {
    Table,
    Func { emits: bool },
    Num,
    Str,
    True,
    Counter,
    Data(DVal),
    Txt(String),
}

#[derive(Clone, Copy, Debug, PartialEq)]
enum Via {
    Field,
    Lazy,
}

#[derive(Clone, Debug)]
struct Exposed {
    field: String,
    target: usize,
    via: Via,
    /// always followed by the entry's observations (a same-literal twin)
    always: bool,
}

#[derive(Clone, Debug)]
struct Node {
    path: String,
    name: String,
    kind: Kind,
    typed: bool,
    is_init: bool,
    exposed: Vec<Exposed>,
    has_run: bool,
    has_ext: Option<String>,
    shadow_fields: Vec<(String, String)>,
    /// module-level `value`
    value: i64,
    /// one of several same-named files in different directories
    twin: bool,
    /// requires this file must write with exactly this literal: (target node, literal)
    forced: Vec<(usize, String)>,
}

impl Node {
    /// a name that says which FILE this is (stems repeat across directories)
    fn ident(&self) -> String {
        if self.twin {
            format!("{}@{}", self.name, resolver::dir_of(&self.path))
        } else {
            self.name.clone()
        }
    }
    /// the path without extension a require names: `dir/name` for `dir/name.lua` and for
    /// `dir/name/init.lua`
    fn requirable(&self) -> String {
        if self.is_init {
            resolver::dir_of(&self.path)
        } else {
            strip_ext(&self.path).to_string()
        }
    }
    fn is_data(&self) -> bool {
        matches!(self.kind, Kind::Data(_) | Kind::Txt(_))
    }
}

struct Ctx<'a, 'b> {
    t: &'a mut Tape<'b>,
    luau: bool,
    nodes: Vec<Node>,
    counter: Option<usize>,
    truth: Vec<Truth>,
    features: BTreeSet<String>,
    label: usize,
    excludes: Vec<String>,
    avoid: Avoid,
    avoided: BTreeSet<&'static str>,
    dirs: Vec<String>,
    aliases: BTreeMap<String, String>,
    /// same-literal twins the entry requires: (target node, literal)
    entry_forced: Vec<(usize, String)>,
}

// ------------------------------------------------------------------------------------ spelling

fn strip_ext(p: &str) -> &str {
    let name_start = p.rfind('/').map(|i| i + 1).unwrap_or(0);
    match p[name_start..].rfind('.') {
        Some(i) if i > 0 => &p[..name_start + i],
        _ => p,
    }
}

fn stem_of(p: &str) -> &str {
    resolver::file_name(strip_ext(p))
}

/// `./`- or `../`-prefixed path from directory `from_dir` to `to`
fn rel(from_dir: &str, to: &str) -> (String, usize) {
    let a = resolver::components(from_dir);
    let b = resolver::components(to);
    let common = a.iter().zip(b.iter()).take_while(|(x, y)| x == y).count();
    let ups = a.len() - common;
    let mut out = String::new();
    if ups == 0 {
        out.push_str("./");
    }
    for _ in 0..ups {
        out.push_str("../");
    }
    out.push_str(&b[common..].join("/"));
    (out, if ups == 0 { 2 } else { 3 * ups })
}

impl<'a, 'b> Ctx<'a, 'b> {
    fn feat(&mut self, f: &str) {
        self.features.insert(f.to_string());
    }

    /// a require string written in `from` that reaches node `target` by construction
    fn spell(&mut self, from: &str, target: usize) -> String {
        let node = self.nodes[target].clone();
        let form = if node.is_data() {
            node.path.clone()
        } else if node.is_init {
            match self.t.weighted(&[6, 1, 1]) {
                0 => {
                    self.feat("spelling:folder for folder/init");
                    resolver::dir_of(&node.path)
                }
                1 => {
                    self.feat("spelling:folder/init");
                    strip_ext(&node.path).to_string()
                }
                _ => {
                    self.feat("spelling:folder/init.ext");
                    node.path.clone()
                }
            }
        } else if self.t.bool(60) {
            self.feat("spelling:with extension");
            node.path.clone()
        } else {
            strip_ext(&node.path).to_string()
        };
        let from_dir = resolver::dir_of(from);
        let from_is_init = stem_of(from) == "init";
        for (name, location) in self.aliases.clone() {
            let prefix = format!("{}/", location.trim_start_matches("./"));
            if form.starts_with(&prefix) && self.t.bool(90) {
                self.feat(if self.luau { "spelling:through an alias" } else { "spelling:through a source" });
                return format!("{}/{}", name, &form[prefix.len()..]);
            }
        }
        if self.luau && from_is_init {
            self.feat("spelling:from a module-folder file (luau)");
            let prefix = format!("{}/", from_dir);
            if form.starts_with(&prefix) && self.t.bool(200) {
                self.feat("spelling:@self");
                return format!("@self/{}", &form[prefix.len()..]);
            }
        }
        let base = if self.luau && from_is_init { resolver::dir_of(&from_dir) } else { from_dir.clone() };
        let (mut s, mut head) = rel(&base, &form);
        if s.ends_with('/') {
            // the folder of a module-folder file seen from inside it: name the file instead
            let r = rel(&base, strip_ext(&node.path));
            s = r.0;
            head = r.1;
        }
        if s.starts_with("../") {
            self.feat("spelling:../");
        }
        match self.t.weighted(&[10, 2, 1, 1]) {
            0 => {}
            1 => {
                // `./d/../m`: a directory name cancelled by `..` (lexical normalisation)
                let d = if self.t.bool(128) {
                    "x".to_string()
                } else {
                    let k = self.t.choose(self.dirs.len());
                    resolver::file_name(&self.dirs[k]).to_string()
                };
                s.insert_str(head, &format!("{}/../", d));
                self.feat("spelling:d/../");
            }
            2 => {
                s.insert_str(head, "./");
                self.feat("spelling:inner ./");
            }
            _ => {
                if s.starts_with("./") {
                    s.insert_str(0, "./");
                    self.feat("spelling:././");
                }
            }
        }
        s
    }

    fn record(&mut self, from: &str, req: &str, target: Option<usize>) {
        let to = target.map(|i| self.nodes[i].path.clone());
        self.truth.push(Truth { from: from.to_string(), req: req.to_string(), to });
    }

    /// the text of a require call of `target` written in file `from`
    fn require_call(&mut self, from: &str, target: usize) -> String {
        self.require_call_as(from, target, None)
    }

    /// the directory a relative require written in `from` starts at
    fn base_of(&self, from: &str) -> String {
        let from_dir = resolver::dir_of(from);
        if self.luau && stem_of(from) == "init" {
            resolver::dir_of(&from_dir)
        } else {
            from_dir
        }
    }

    fn require_call_as(&mut self, from: &str, target: usize, fixed: Option<&str>) -> String {
        let s = match fixed {
            Some(l) => l.to_string(),
            None => self.spell(from, target),
        };
        self.record(from, &s, Some(target));
        self.call_text(&s)
    }

    fn call_text(&mut self, s: &str) -> String {
        match self.t.weighted(&[12, 3, 2, 1, 1, 1, 1, 1, 1, 1]) {
            0 => format!("require(\"{}\")", s),
            1 => format!("require('{}')", s),
            2 => {
                self.feat("call:string argument without parentheses");
                format!("require \"{}\"", s)
            }
            3 => {
                self.feat("call:long string argument");
                format!("require[[{}]]", s)
            }
            4 => format!("require( \"{}\" )", s),
            5 => {
                self.feat("call:comment between callee and arguments");
                format!("require --[[why]] (\"{}\")", s)
            }
            6 => {
                self.feat("call:comment inside the arguments");
                format!("require(\"{}\" --[[inside]])", s)
            }
            7 => {
                self.feat("call:arguments on their own lines");
                format!("require(\n    \"{}\"\n)", s)
            }
            8 => {
                self.feat("call:line comment between callee and arguments");
                format!("require -- why\n    (\"{}\")", s)
            }
            _ => {
                self.feat("call:decimal escape in the literal");
                format!("require(\"{}\")", s.replacen('.', "\\46", 1))
            }
        }
    }

    fn next_label(&mut self, what: &str) -> String {
        self.label += 1;
        format!("\"{}#{}\"", what, self.label)
    }
}

// ------------------------------------------------------------------------------------ text writer

struct Writer {
    lines: Vec<String>,
    indent: usize,
}

impl Writer {
    fn new() -> Writer {
        Writer { lines: vec![], indent: 0 }
    }
    fn raw(&mut self, s: impl Into<String>) {
        let s: String = s.into();
        self.lines.push(format!("{}{}", "    ".repeat(self.indent), s));
    }
    /// a statement line with optional layout noise around it
    fn line(&mut self, t: &mut Tape, s: impl Into<String>) {
        let s: String = s.into();
        match t.choose(16) {
            13 => {
                self.raw("-- note");
                self.raw(s);
            }
            14 => self.raw(format!("{} -- trailing", s)),
            15 => {
                self.raw("");
                self.raw(s);
            }
            _ => self.raw(s),
        }
    }
    fn finish(self, t: &mut Tape) -> String {
        let mut s = self.lines.join("\n");
        if !t.bool(30) {
            s.push('\n');
        }
        if t.bool(12) {
            s = s.replace('\n', "\r\n");
        }
        s
    }
}

// ------------------------------------------------------------------------------------ modules

/// how a required value is used at the top level of a module / the entry
#[derive(Clone, Copy, Debug, PartialEq)]
enum Pos {
    Local,
    Paren,
    TableField,
    Arg,
    Multi,
    Assign,
    If,
    Loop,
    FnCalled,
    And,
    IfExpr,
    Cast,
    Inner,
    // no module value afterwards
    Stmt,
    FnNever,
    UnusedLocal,
    PrefixField,
    PrefixIndex,
    PrefixCall,
    PrefixMethod,
    BinOp,
    Interp,
}

impl Pos {
    fn label(self) -> &'static str {
        match self {
            Pos::Local => "position:local statement",
            Pos::Paren => "position:parenthesised",
            Pos::TableField => "position:table constructor",
            Pos::Arg => "position:argument",
            Pos::Multi => "position:multiple local",
            Pos::Assign => "position:assignment",
            Pos::If => "position:inside if",
            Pos::Loop => "position:inside loop (runs twice)",
            Pos::FnCalled => "position:nested function called later",
            Pos::And => "position:operand of and",
            Pos::IfExpr => "position:branch of an if expression",
            Pos::Cast => "position:operand of a type cast",
            Pos::Inner => "position:function nested in a function, called later",
            Pos::Interp => "position:inside an interpolated string",
            Pos::Stmt => "position:call statement",
            Pos::FnNever => "position:nested function never called",
            Pos::UnusedLocal => "position:unused local",
            Pos::PrefixField => "position:prefix .field",
            Pos::PrefixIndex => "position:prefix [\"field\"]",
            Pos::PrefixCall => "position:prefix call of the module value",
            Pos::PrefixMethod => "position:prefix :method()",
            Pos::BinOp => "position:binary operand",
        }
    }
}

/// writes the use; returns the expression holding the module value afterwards (if any)
#[allow(clippy::too_many_arguments)]
fn write_use(c: &mut Ctx, w: &mut Writer, from: &str, target: usize, var: &str, pos: Pos, sfx: &str, at_require_time: bool) -> Option<String> {
    write_use_as(c, w, from, target, var, pos, sfx, at_require_time, None)
}

#[allow(clippy::too_many_arguments)]
fn write_use_as(c: &mut Ctx, w: &mut Writer, from: &str, target: usize, var: &str, pos: Pos, sfx: &str, at_require_time: bool, fixed: Option<&str>) -> Option<String> {
    let call = c.require_call_as(from, target, fixed);
    c.feat(pos.label());
    let tnode = c.nodes[target].clone();
    match pos {
        Pos::Local => {
            w.line(c.t, format!("local {} = {}", var, call));
            if tnode.typed {
                c.feat("types:exported type referenced through the module variable");
                match c.t.choose(if at_require_time { 4 } else { 3 }) {
                    3 => w.line(c.t, format!("export type Wrapped{} = {{ inner: {}.Item, id: {}.Id }}", sfx, var, var)),
                    0 => w.line(c.t, format!("type Alias{} = {}.Item", sfx, var)),
                    1 => w.line(c.t, format!("local function take{}(x: {}.Item): {}.Id return x.value end", sfx, var, var)),
                    _ => {
                        w.line(c.t, format!("type Boxed{} = {}.Box<{}.Id>", sfx, var, var));
                        w.line(c.t, format!("local typed{}: {}.Id = 1", sfx, var));
                    }
                }
            }
            Some(var.to_string())
        }
        Pos::Paren => {
            w.line(c.t, format!("local {} = ({})", var, call));
            Some(var.to_string())
        }
        Pos::TableField => {
            w.line(c.t, format!("local box{} = {{ v = {}, pad = 1 }}", sfx, call));
            Some(format!("box{}.v", sfx))
        }
        Pos::Arg => {
            w.line(c.t, format!("local {} = helper({})", var, call));
            Some(var.to_string())
        }
        Pos::Multi => {
            w.line(c.t, format!("local pad{}, {} = 1, {}", sfx, var, call));
            Some(var.to_string())
        }
        Pos::Assign => {
            w.line(c.t, format!("local {}", var));
            w.line(c.t, format!("{} = {}", var, call));
            Some(var.to_string())
        }
        Pos::If => {
            w.line(c.t, format!("local {}", var));
            w.line(c.t, format!("if value then {} = {} end", var, call));
            Some(var.to_string())
        }
        Pos::Loop => {
            w.line(c.t, format!("local {}", var));
            w.line(c.t, "for i = 1, 2 do");
            w.indent += 1;
            w.line(c.t, format!("{} = {}", var, call));
            w.indent -= 1;
            w.line(c.t, "end");
            Some(var.to_string())
        }
        Pos::FnCalled => {
            w.line(c.t, format!("local function load{}()", sfx));
            w.indent += 1;
            w.line(c.t, format!("return {}", call));
            w.indent -= 1;
            w.line(c.t, "end");
            w.line(c.t, format!("local {} = load{}()", var, sfx));
            Some(var.to_string())
        }
        Pos::And => {
            w.line(c.t, format!("local {} = value and {}", var, call));
            Some(var.to_string())
        }
        Pos::IfExpr => {
            w.line(c.t, format!("local {} = if value then {} else nil", var, call));
            Some(var.to_string())
        }
        Pos::Cast => {
            if c.t.bool(128) {
                w.line(c.t, format!("local {} = {} :: any", var, call));
            } else {
                w.line(c.t, format!("local {} = ({} :: typeof(value)) :: any", var, call));
            }
            Some(var.to_string())
        }
        Pos::Inner => {
            w.line(c.t, format!("local function outer{}()", sfx));
            w.indent += 1;
            w.line(c.t, "local function inner()");
            w.indent += 1;
            w.line(c.t, format!("return {}", call));
            w.indent -= 1;
            w.line(c.t, "end");
            w.line(c.t, "return inner()");
            w.indent -= 1;
            w.line(c.t, "end");
            w.line(c.t, format!("local {} = outer{}()", var, sfx));
            Some(var.to_string())
        }
        Pos::Interp => {
            w.line(c.t, format!("local n{} = `<{{{}}}>`", sfx, call));
            if !at_require_time {
                let l = c.next_label("interp");
                w.line(c.t, format!("emit({}, n{})", l, sfx));
            }
            None
        }
        Pos::Stmt => {
            w.line(c.t, call);
            None
        }
        Pos::FnNever => {
            w.line(c.t, format!("local function never{}()", sfx));
            w.indent += 1;
            w.line(c.t, format!("return {}", call));
            w.indent -= 1;
            w.line(c.t, "end");
            None
        }
        Pos::UnusedLocal => {
            w.line(c.t, format!("local unused{} = {}", sfx, call));
            None
        }
        Pos::PrefixField => {
            w.line(c.t, format!("local n{} = {}.name", sfx, call));
            if !at_require_time {
                let l = c.next_label("prefix.name");
                w.line(c.t, format!("emit({}, n{})", l, sfx));
            }
            None
        }
        Pos::PrefixIndex => {
            w.line(c.t, format!("local n{} = {}[\"name\"]", sfx, call));
            if !at_require_time {
                let l = c.next_label("prefix[name]");
                w.line(c.t, format!("emit({}, n{})", l, sfx));
            }
            None
        }
        Pos::PrefixCall => {
            w.line(c.t, format!("local c{} = {}(7)", sfx, call));
            if !at_require_time {
                let l = c.next_label("prefix()");
                w.line(c.t, format!("emit({}, c{}.x, c{}.calls)", l, sfx, sfx));
            }
            None
        }
        Pos::PrefixMethod => {
            w.line(c.t, format!("local s{} = {}:describe()", sfx, call));
            if !at_require_time {
                let l = c.next_label("prefix:describe");
                w.line(c.t, format!("emit({}, s{})", l, sfx));
            }
            None
        }
        Pos::BinOp => {
            match tnode.kind {
                Kind::Num => w.line(c.t, format!("local n{} = {} + 1", sfx, call)),
                _ => w.line(c.t, format!("local n{} = {} .. \"!\"", sfx, call)),
            }
            if !at_require_time {
                let l = c.next_label("binop");
                w.line(c.t, format!("emit({}, n{})", l, sfx));
            }
            None
        }
    }
}

/// a position after which the module value is still at hand
fn pick_value_pos(c: &mut Ctx) -> Pos {
    let options = [Pos::Local, Pos::Paren, Pos::TableField, Pos::Arg, Pos::Multi, Pos::Assign, Pos::If, Pos::Loop, Pos::FnCalled, Pos::And, Pos::IfExpr, Pos::Cast, Pos::Inner];
    let weights = [10, 2, 3, 3, 2, 2, 2, 2, 3, 1, 1, 2, 1];
    options[c.t.weighted(&weights)]
}

fn pick_pos(c: &mut Ctx, target: usize, at_require_time: bool) -> Pos {
    let kind = c.nodes[target].kind.clone();
    let mut options: Vec<(Pos, u32)> = vec![
        (Pos::Local, 10),
        (Pos::Paren, 2),
        (Pos::TableField, 3),
        (Pos::Arg, 3),
        (Pos::Multi, 2),
        (Pos::Assign, 2),
        (Pos::If, 2),
        (Pos::Loop, 2),
        (Pos::FnCalled, 3),
        (Pos::And, 1),
        (Pos::IfExpr, 1),
        (Pos::Cast, 2),
        (Pos::Inner, 1),
        (Pos::Stmt, 2),
        (Pos::FnNever, 2),
        (Pos::UnusedLocal, 1),
    ];
    match kind {
        Kind::Table => {
            options.push((Pos::PrefixField, 3));
            options.push((Pos::PrefixIndex, 1));
            options.push((Pos::PrefixMethod, 2));
        }
        Kind::Func { emits } => {
            if !(emits && at_require_time) {
                options.push((Pos::PrefixCall, 4));
            }
        }
        Kind::Num | Kind::Str => {
            options.push((Pos::BinOp, 3));
            options.push((Pos::Interp, 2));
        }
        Kind::Txt(_) => options.push((Pos::BinOp, 3)),
        _ => {}
    }
    let weights: Vec<u32> = options.iter().map(|o| o.1).collect();
    options[c.t.weighted(&weights)].0
}

fn write_types(c: &mut Ctx, w: &mut Writer) {
    c.feat("types:module exports types");
    w.line(c.t, "export type Item = { name: string, value: number }");
    w.line(c.t, "export type Id = number");
    w.line(c.t, "export type Box<T> = { item: T }");
    w.line(c.t, "type Private = Item | Id");
}

/// a section whose `require` is a user function: the calls must be left alone
fn write_shadow_section(c: &mut Ctx, w: &mut Writer, from: &str, in_module: bool, sink: &mut Vec<(String, String)>) {
    // the argument looks like a real module of the project (or a missing one)
    let lua: Vec<usize> = (0..c.nodes.len()).filter(|i| !c.nodes[*i].is_data() && c.nodes[*i].path != from).collect();
    let arg = if lua.is_empty() || c.t.bool(50) {
        "./nope".to_string()
    } else {
        let i = *c.t.pick(&lua);
        // spelled like a real require; NOT recorded in the ground truth (it is not a require)
        let save = c.features.clone();
        let s = c.spell(from, i);
        c.features = save;
        s
    };
    let form = c.t.choose(4);
    c.label += 1;
    let id = c.label;
    let tag = format!("shadow{}", id);
    let user = |kind: &str| -> String {
        if in_module {
            format!("return \"{}:\" .. p", kind)
        } else {
            format!("emit(\"my-require\", p) return \"{}:\" .. p", kind)
        }
    };
    let store = |c: &mut Ctx, w: &mut Writer, value: String| {
        if in_module {
            w.line(c.t, format!("M.{} = {}", tag, value));
        } else {
            let l = c.next_label("shadowed");
            w.line(c.t, format!("emit({}, {})", l, value));
        }
    };
    match form {
        0 => {
            c.feat("shadow:local require in a do block");
            w.line(c.t, "do");
            w.indent += 1;
            w.line(c.t, format!("local require = function(p) {} end", user("local")));
            let call = c.call_text(&arg);
            store(c, w, call);
            w.indent -= 1;
            w.line(c.t, "end");
        }
        1 => {
            c.feat("shadow:parameter named require");
            w.line(c.t, format!("local function with{}(require)", id));
            w.indent += 1;
            let call = c.call_text(&arg);
            w.line(c.t, format!("return {}", call));
            w.indent -= 1;
            w.line(c.t, "end");
            store(c, w, format!("with{}(function(p) {} end)", id, user("param")));
        }
        2 => {
            c.feat("shadow:local function require");
            w.line(c.t, "do");
            w.indent += 1;
            w.line(c.t, format!("local function require(p) {} end", user("localfn")));
            let call = c.call_text(&arg);
            store(c, w, format!("{}", call));
            w.indent -= 1;
            w.line(c.t, "end");
        }
        _ => {
            c.feat("shadow:loop variable named require");
            w.line(c.t, format!("for index, require in ipairs({{ function(p) {} end }}) do", user("loopvar")));
            w.indent += 1;
            let call = c.call_text(&arg);
            store(c, w, call);
            w.indent -= 1;
            w.line(c.t, "end");
        }
    }
    if in_module {
        sink.push((tag, arg));
    }
}

fn write_module(c: &mut Ctx, idx: usize) -> String {
    let node = c.nodes[idx].clone();
    let from = node.path.clone();
    let mut w = Writer::new();
    if c.t.bool(100) {
        w.raw(format!("-- module {}", node.name));
    }
    if node.typed {
        write_types(c, &mut w);
    }
    // colliding module-level locals
    if node.typed {
        w.line(c.t, format!("local value: Id = {}", node.value));
    } else {
        w.line(c.t, format!("local value = {}", node.value));
    }
    w.line(c.t, "local helper = function(x) return x end");
    if c.t.bool(60) {
        // names the bundle wrapper uses itself
        c.feat("locals:v / c / cache as module-level locals");
        w.line(c.t, format!("local v, c, cache = {}, \"c\", {{}}", node.value));
    }
    let is_table = node.kind == Kind::Table;
    let is_func = matches!(node.kind, Kind::Func { .. });
    if is_table {
        w.line(c.t, "local M = {}");
        w.line(c.t, format!("M.name = \"{}\"", node.ident()));
        w.line(c.t, "M.token = {}");
    }
    if is_func {
        w.line(c.t, "local calls = 0");
    }
    // the shared counter: every module body bumps it once
    if let Some(ci) = c.counter {
        let call = c.require_call(&from, ci);
        w.line(c.t, format!("local counter = {}", call));
        w.line(c.t, "counter.n = counter.n + 1");
    }
    // dependencies
    let candidates: Vec<usize> = (idx + 1..c.nodes.len()).filter(|j| Some(*j) != c.counter).collect();
    let mut exposed: Vec<Exposed> = vec![];
    let mut func_fields: Vec<(String, String)> = vec![];
    let mut nuse = 0;
    if !candidates.is_empty() {
        let n = c.t.weighted(&[3, 5, 3, 1]);
        for _ in 0..n {
            let j = *c.t.pick(&candidates);
            nuse += 1;
            let sfx = format!("{}x{}", j, nuse);
            let var = format!("d{}", sfx);
            // lazily through a function of the returned table
            if is_table && c.t.bool(50) {
                let call = c.require_call(&from, j);
                c.feat("position:function of the returned table (lazy)");
                if c.t.bool(80) {
                    w.line(c.t, format!("function M.lazy{}(...)", sfx));
                } else {
                    w.line(c.t, format!("function M.lazy{}()", sfx));
                }
                w.indent += 1;
                w.line(c.t, format!("return {}", call));
                w.indent -= 1;
                w.line(c.t, "end");
                exposed.push(Exposed { field: format!("lazy{}", sfx), target: j, via: Via::Lazy, always: false });
                continue;
            }
            let pos = pick_pos(c, j, true);
            if let Some(expr) = write_use(c, &mut w, &from, j, &var, pos, &sfx, true) {
                if is_table {
                    w.line(c.t, format!("M.{} = {}", var, expr));
                    exposed.push(Exposed { field: var.clone(), target: j, via: Via::Field, always: false });
                } else if is_func {
                    func_fields.push((var.clone(), expr));
                    exposed.push(Exposed { field: var.clone(), target: j, via: Via::Field, always: false });
                }
            }
        }
    }
    // same-literal twins: the literal is fixed, the value stays observable
    for (j, literal) in node.forced.clone() {
        nuse += 1;
        let sfx = format!("{}x{}", j, nuse);
        let var = format!("d{}", sfx);
        let pos = pick_value_pos(c);
        c.feat("twin:required by a module");
        if let Some(expr) = write_use_as(c, &mut w, &from, j, &var, pos, &sfx, true, Some(&literal)) {
            if is_table {
                w.line(c.t, format!("M.{} = {}", var, expr));
                exposed.push(Exposed { field: var.clone(), target: j, via: Via::Field, always: true });
            } else if is_func {
                func_fields.push((var.clone(), expr));
                exposed.push(Exposed { field: var.clone(), target: j, via: Via::Field, always: true });
            }
        }
    }
    let mut shadow_fields = vec![];
    if is_table && c.t.bool(50) {
        if c.avoid.module_shadow {
            c.avoided.insert("c05-module-require-shadow");
        } else {
            write_shadow_section(c, &mut w, &from, true, &mut shadow_fields);
        }
    }
    let mut has_run = false;
    let mut has_ext = None;
    match &node.kind {
        Kind::Table => {
            w.line(c.t, "M.value = value");
            w.line(c.t, "function M.get() return value end");
            w.line(c.t, "function M.bump() value = value + 1 return value end");
            w.line(c.t, "function M:describe() return self.name .. \":\" .. tostring(value) end");
            if c.t.bool(100) {
                has_run = true;
                w.line(c.t, format!("function M.run(x) emit(\"{}.run\", x, value) return x end", node.ident()));
            }
            if !c.excludes.is_empty() && c.t.bool(50) {
                let ext = excluded_string(c);
                c.record(&from, &ext, None);
                c.feat("excluded:require inside a module function");
                w.line(c.t, format!("function M.ext() return require(\"{}\") end", ext));
                has_ext = Some(ext);
            }
            if c.t.bool(40) {
                c.feat("module:conditional early return before the final return");
                w.line(c.t, "if not value then return M end");
            }
            match c.t.choose(8) {
                5 => w.line(c.t, "return M;"),
                6 => w.line(c.t, "return (M)"),
                7 => w.line(c.t, "return M -- the module"),
                _ => w.line(c.t, "return M"),
            }
        }
        Kind::Func { emits } => {
            w.line(c.t, "return function(x)");
            w.indent += 1;
            w.line(c.t, "calls = calls + 1");
            if *emits {
                w.line(c.t, format!("emit(\"{} called\", x, calls)", node.ident()));
            }
            let mut fields = vec!["x = helper(x)".to_string(), "calls = calls".to_string(), "value = value".to_string()];
            for (f, e) in &func_fields {
                fields.push(format!("{} = {}", f, e));
            }
            w.line(c.t, format!("return {{ {} }}", fields.join(", ")));
            w.indent -= 1;
            w.line(c.t, "end");
        }
        Kind::Num => {
            if c.t.bool(128) {
                w.line(c.t, "return value * 2");
            } else {
                w.line(c.t, format!("return {}", node.value + 1));
            }
        }
        Kind::Str => w.line(c.t, format!("return \"{}:\" .. tostring(value)", node.ident())),
        Kind::True => w.line(c.t, "return true"),
        Kind::Counter | Kind::Data(_) | Kind::Txt(_) => unreachable!(),
    }
    let n = &mut c.nodes[idx];
    n.exposed = exposed;
    n.has_run = has_run;
    n.has_ext = has_ext;
    n.shadow_fields = shadow_fields;
    w.finish(c.t)
}

fn excluded_string(c: &mut Ctx) -> String {
    let mut pool: Vec<&str> = vec![];
    for e in &c.excludes {
        if e.starts_with("@ext") {
            pool.extend(["@ext/thing", "@ext/deep/er/thing", "@ext/thing.lua"]);
        } else if e.starts_with("./gen_") {
            pool.extend(["./gen_data", "./gen_x.lua", "./gen_data", "./gen_version"]);
        } else {
            pool.extend(["./vendor_x", "../lib/vendor_tools", "./lib/vendor_y.lua", "vendor_z"]);
        }
    }
    c.t.pick(&pool).to_string()
}

// ------------------------------------------------------------------------------------ entry

struct EntryState {
    /// node -> expressions (entry locals) holding its value
    vars: BTreeMap<usize, Vec<String>>,
    /// node -> every expression observed to hold its value (for pairwise identity checks)
    seen: BTreeMap<usize, Vec<String>>,
    budget: usize,
    observes_identity: bool,
}

fn data_probes(c: &mut Ctx, w: &mut Writer, expr: &str, v: &DVal, depth: usize) {
    match v {
        DVal::Num(_) | DVal::Str(_) | DVal::Bool(_) => {
            let l = c.next_label("data");
            w.line(c.t, format!("emit({}, {})", l, expr));
        }
        DVal::Arr(a) => {
            let l = c.next_label("data#");
            w.line(c.t, format!("emit({}, type({}), #{})", l, expr, expr));
            if depth < 3 {
                for (i, x) in a.iter().enumerate() {
                    data_probes(c, w, &format!("{}[{}]", expr, i + 1), x, depth + 1);
                }
            }
        }
        DVal::Obj(o) => {
            let l = c.next_label("data{}");
            w.line(c.t, format!("emit({}, type({}), count({}))", l, expr, expr));
            if depth < 3 {
                for (k, x) in o {
                    data_probes(c, w, &format!("{}.{}", expr, k), x, depth + 1);
                }
            }
        }
    }
}

fn observe(c: &mut Ctx, w: &mut Writer, st: &mut EntryState, expr: &str, idx: usize, depth: usize) {
    let node = c.nodes[idx].clone();
    if st.budget == 0 && !node.twin {
        return;
    }
    st.budget = st.budget.saturating_sub(1);
    st.seen.entry(idx).or_default().push(expr.to_string());
    let exposures = |c: &mut Ctx, w: &mut Writer, st: &mut EntryState, holder: &str| {
        for ex in &node.exposed {
            if !ex.always && !c.t.bool(200) {
                continue;
            }
            let sub = match ex.via {
                Via::Field => format!("{}.{}", holder, ex.field),
                Via::Lazy => {
                    c.label += 1;
                    let v = format!("lz{}", c.label);
                    w.line(c.t, format!("local {} = {}.{}()", v, holder, ex.field));
                    c.feat("entry:calls a lazy require of a module");
                    v
                }
            };
            if let Some(vars) = st.vars.get(&ex.target) {
                let var = vars[0].clone();
                let l = c.next_label("same");
                w.line(c.t, format!("emit({}, {} == {})", l, sub, var));
                st.observes_identity = true;
                c.feat("entry:compares a module value reached via two paths");
            }
            if depth < 2 {
                observe(c, w, st, &sub, ex.target, depth + 1);
            } else {
                st.seen.entry(ex.target).or_default().push(sub);
            }
        }
    };
    match &node.kind {
        Kind::Table => {
            let l = c.next_label(&node.name);
            w.line(c.t, format!("emit({}, {}.name, {}.value, {}.get())", l, expr, expr, expr));
            if c.t.bool(128) {
                let l = c.next_label("bump");
                w.line(c.t, format!("emit({}, {}.bump(), {}.get())", l, expr, expr));
            }
            if c.t.bool(80) {
                let l = c.next_label("describe");
                w.line(c.t, format!("emit({}, {}:describe())", l, expr));
            }
            if node.has_run && c.t.bool(160) {
                let l = c.next_label("run");
                w.line(c.t, format!("emit({}, {}.run({}))", l, expr, depth + 1));
            }
            if node.has_ext.is_some() && c.t.bool(200) {
                let l = c.next_label("ext");
                w.line(c.t, format!("emit({}, {}.ext())", l, expr));
                c.feat("excluded:module function called by the entry");
            }
            for (f, _) in &node.shadow_fields {
                let l = c.next_label("module-shadow");
                w.line(c.t, format!("emit({}, {}.{})", l, expr, f));
            }
            exposures(c, w, st, expr);
        }
        Kind::Func { .. } => {
            c.label += 1;
            let res = format!("res{}", c.label);
            w.line(c.t, format!("local {} = {}({})", res, expr, depth + 2));
            let l = c.next_label(&node.name);
            w.line(c.t, format!("emit({}, {}.x, {}.calls, {}.value)", l, res, res, res));
            exposures(c, w, st, &res);
        }
        Kind::Num | Kind::Str | Kind::True | Kind::Txt(_) => {
            let l = c.next_label(&node.name);
            w.line(c.t, format!("emit({}, {})", l, expr));
        }
        Kind::Counter => {
            let l = c.next_label("counter");
            w.line(c.t, format!("emit({}, {}.n)", l, expr));
        }
        Kind::Data(v) => {
            c.feat("data:content probed");
            data_probes(c, w, expr, v, 0);
        }
    }
}

fn write_entry(c: &mut Ctx, entry: &str) -> (String, bool) {
    let mut w = Writer::new();
    if c.t.bool(60) {
        w.raw("-- entry point");
    }
    w.line(c.t, "local value = \"entry\"");
    w.line(c.t, "local M = { entry = true }");
    w.line(c.t, "local helper = function(x) return x end");
    w.line(c.t, "local function count(t) local n = 0 for k in pairs(t) do n = n + 1 end return n end");
    if c.t.bool(50) {
        // the entry has types named like the exported types of the modules
        c.feat("types:entry declares Item / Id itself");
        w.line(c.t, "type Item = string");
        w.line(c.t, "type Id = { id: Item }");
        w.line(c.t, "local own: Item = \"own\"");
    }
    let entry_vc = c.t.bool(60);
    if entry_vc {
        w.line(c.t, "local v, c, cache = \"v\", \"c\", \"cache\"");
    }
    let mut st = EntryState { vars: BTreeMap::new(), seen: BTreeMap::new(), budget: 24, observes_identity: false };
    // which nodes have no requirer among the modules
    let mut incoming: BTreeSet<String> = BTreeSet::new();
    for tr in &c.truth {
        if let Some(to) = &tr.to {
            incoming.insert(to.clone());
        }
    }
    let mut uses: Vec<usize> = vec![];
    for i in 0..c.nodes.len() {
        if Some(i) == c.counter {
            continue;
        }
        let root = !incoming.contains(&c.nodes[i].path);
        if c.t.bool(if root { 235 } else { 130 }) {
            uses.push(i);
        }
    }
    // some are required twice, through another spelling
    for i in uses.clone() {
        if c.t.bool(70) {
            uses.push(i);
        }
    }
    if c.t.bool(128) {
        uses.reverse();
    }
    let shadow_early = !c.nodes.is_empty() && c.t.bool(40);
    let shadow_late = c.t.bool(60);
    let n_ext = if c.excludes.is_empty() { 0 } else { c.t.weighted(&[1, 3, 2]) };
    let mut ext_done = 0;
    for (k, i) in uses.iter().enumerate() {
        if shadow_early && k == uses.len() / 2 {
            // a scope with a user `require`, closed before the next real require
            write_shadow_section(c, &mut w, entry, false, &mut vec![]);
            c.feat("shadow:real require after the shadowing scope closed");
        }
        if ext_done < n_ext && c.t.bool(100) {
            write_excluded(c, &mut w, entry, &mut ext_done);
        }
        let sfx = format!("{}e{}", i, k);
        let var = format!("r{}", sfx);
        let pos = pick_pos(c, *i, false);
        if let Some(expr) = write_use(c, &mut w, entry, *i, &var, pos, &sfx, false) {
            if let Some(first) = st.vars.get(i).map(|v| v[0].clone()) {
                let l = c.next_label("same-in-entry");
                w.line(c.t, format!("emit({}, {} == {})", l, expr, first));
                st.observes_identity = true;
                c.feat("entry:requires the same file twice");
            }
            st.vars.entry(*i).or_default().push(expr);
        }
    }
    while ext_done < n_ext {
        write_excluded(c, &mut w, entry, &mut ext_done);
    }
    // same-literal twins required by the entry itself
    let forced = c.entry_forced.clone();
    for (k, (j, literal)) in forced.iter().enumerate() {
        let sfx = format!("{}t{}", j, k);
        let var = format!("r{}", sfx);
        let pos = pick_value_pos(c);
        c.feat("twin:required by the entry");
        if let Some(expr) = write_use_as(c, &mut w, entry, *j, &var, pos, &sfx, false, Some(literal)) {
            st.vars.entry(*j).or_default().push(expr);
        }
    }
    // observations: first the values that show which of several same-named files was loaded
    let vars: Vec<(usize, String)> = st.vars.iter().map(|(i, v)| (*i, v[0].clone())).collect();
    let priority = |c: &Ctx, i: usize| c.nodes[i].twin || !c.nodes[i].forced.is_empty();
    for (i, v) in &vars {
        if priority(c, *i) {
            observe(c, &mut w, &mut st, v, *i, 0);
        }
    }
    for (i, v) in &vars {
        if !priority(c, *i) {
            observe(c, &mut w, &mut st, v, *i, 0);
        }
    }
    // every pair of expressions that must hold one and the same module value
    let seen = st.seen.clone();
    for (i, exprs) in seen {
        if exprs.len() >= 2 && !matches!(c.nodes[i].kind, Kind::Num | Kind::Str | Kind::True | Kind::Txt(_)) {
            for pair in exprs.windows(2).take(3) {
                let l = c.next_label("identity");
                w.line(c.t, format!("emit({}, {} == {})", l, pair[0], pair[1]));
                st.observes_identity = true;
            }
        }
    }
    let mut observes_counter = false;
    if let Some(ci) = c.counter {
        let call = c.require_call(entry, ci);
        w.line(c.t, format!("local counter = {}", call));
        w.line(c.t, "emit(\"counter\", counter.n)");
        observes_counter = true;
    }
    if shadow_late {
        c.feat("shadow:entry-level local require until the end of the file");
        w.line(c.t, "local require = function(p) emit(\"my-require\", p) return { name = p } end");
        let lua: Vec<usize> = (0..c.nodes.len()).filter(|i| !c.nodes[*i].is_data()).collect();
        let arg = if lua.is_empty() {
            "./nope".to_string()
        } else {
            let i = *c.t.pick(&lua);
            let save = c.features.clone();
            let s = c.spell(entry, i);
            c.features = save;
            s
        };
        let call = c.call_text(&arg);
        let l = c.next_label("late-shadow");
        w.line(c.t, format!("emit({}, {}.name)", l, call));
    }
    w.line(c.t, "emit(\"locals\", value, M.entry, helper(1))");
    if entry_vc {
        w.line(c.t, "emit(\"more locals\", v, c, cache)");
    }
    // a require in the return statement of the entry (scalar modules only, not after a shadow)
    let scalars: Vec<usize> = (0..c.nodes.len()).filter(|i| matches!(c.nodes[*i].kind, Kind::Num | Kind::Str | Kind::True)).collect();
    if !shadow_late && !scalars.is_empty() && c.t.bool(60) {
        let i = *c.t.pick(&scalars);
        let call = c.require_call(entry, i);
        c.feat("position:return statement of the entry");
        w.line(c.t, format!("return value, {}", call));
        return (w.finish(c.t), observes_counter || st.observes_identity);
    }
    if observes_counter {
        w.line(c.t, "return value, counter.n");
    } else {
        w.line(c.t, "return value");
    }
    (w.finish(c.t), observes_counter || st.observes_identity)
}

fn write_excluded(c: &mut Ctx, w: &mut Writer, entry: &str, done: &mut usize) {
    *done += 1;
    let ext = excluded_string(c);
    c.record(entry, &ext, None);
    c.feat("excluded:require in the entry");
    match c.t.choose(3) {
        0 => {
            let l = c.next_label("excluded");
            w.line(c.t, format!("emit({}, require(\"{}\"))", l, ext));
        }
        1 => w.line(c.t, format!("require(\"{}\")", ext)),
        _ => {
            c.label += 1;
            let v = format!("ext{}", c.label);
            w.line(c.t, format!("local {} = require '{}'", v, ext));
            let l = c.next_label("excluded");
            w.line(c.t, format!("emit({}, {})", l, v));
        }
    }
}

// ------------------------------------------------------------------------------------ the graph

const MODULE_NAMES: [&str; 8] = ["alpha", "beta", "gamma", "delta", "util", "core", "zeta", "omega"];
const DATA_NAMES: [&str; 4] = ["config", "settings", "table", "notes"];

pub fn gen_generator(t: &mut Tape) -> String {
    match t.choose(3) {
        0 => crate::dl::generator_json("retain_lines", 0),
        1 => crate::dl::generator_json("dense", *t.pick(&[80usize, 1, 20, 120])),
        _ => crate::dl::generator_json("readable", *t.pick(&[80usize, 1, 20, 120])),
    }
}

const TWIN_STEMS: [&str; 5] = ["config", "common", "shared", "helpers", "index"];

/// Families of same-named files: a stem T and a relative literal R (`./T`, `../T`, `./sub/T`)
/// written in files whose relative requires start at DIFFERENT directories, so that one literal
/// means several files; each such file gets its own twin (plain file or T/init folder).  Two
/// requirers starting at the same directory share their twin (same literal, same file).
/// Returns the number of twin modules created.
fn gen_twin_families(c: &mut Ctx, entry: &str, n_mod: usize) -> usize {
    let n_fam = c.t.weighted(&[2, 5, 3]);
    let mut created = 0;
    let mut taken: BTreeSet<(String, String)> = c.nodes.iter().map(|n| (resolver::dir_of(&n.requirable()), resolver::file_name(&n.requirable()).to_string())).collect();
    // requirers: None = the entry, Some(i) = a Lua module (regular ones, then earlier twins)
    let mut requirers: Vec<Option<usize>> = vec![None];
    requirers.extend((0..n_mod).map(Some));
    let stem_start = c.t.choose(TWIN_STEMS.len());
    for fam in 0..n_fam {
        let stem = TWIN_STEMS[(stem_start + fam) % TWIN_STEMS.len()];
        let shape = c.t.weighted(&[6, 2, 2]);
        // group the requirers by the directory their relative requires start at
        let mut by_base: BTreeMap<String, Vec<Option<usize>>> = BTreeMap::new();
        for r in &requirers {
            let path = match r {
                None => entry.to_string(),
                Some(i) => c.nodes[*i].path.clone(),
            };
            by_base.entry(c.base_of(&path)).or_default().push(*r);
        }
        let mut bases: Vec<String> = by_base.keys().cloned().collect();
        // a rotation chosen by the tape, then the first 2-3 (4) directories
        let k = c.t.choose(bases.len().max(1));
        bases.rotate_left(k);
        let want = 2 + c.t.weighted(&[5, 3, 1]);
        let mut new_twins: Vec<usize> = vec![];
        for base in bases.into_iter().take(want) {
            // `../T` only where the parent is still inside src/
            let (literal, target_stem_path) = match shape {
                1 if resolver::components(&base).len() >= 2 => (format!("../{}", stem), format!("{}/{}", resolver::dir_of(&base), stem)),
                2 => (format!("./sub/{}", stem), format!("{}/sub/{}", base, stem)),
                _ => (format!("./{}", stem), format!("{}/{}", base, stem)),
            };
            let key = (resolver::dir_of(&target_stem_path), stem.to_string());
            let existing = c.nodes.iter().position(|n| n.twin && n.requirable() == target_stem_path);
            let twin = match existing {
                Some(i) => i,
                None => {
                    if taken.contains(&key) {
                        continue;
                    }
                    taken.insert(key);
                    let ext = if c.t.bool(90) { "luau" } else { "lua" };
                    let is_init = c.t.bool(50);
                    let path = if is_init { format!("{}/init.{}", target_stem_path, ext) } else { format!("{}.{}", target_stem_path, ext) };
                    let kind = match c.t.weighted(&[10, 3, 1, 2]) {
                        0 => Kind::Table,
                        1 => Kind::Func { emits: c.t.bool(128) },
                        2 => Kind::Num,
                        _ => Kind::Str,
                    };
                    created += 1;
                    let value = 1000 + 10 * (c.nodes.len() as i64) + 3;
                    c.nodes.push(Node { path, name: stem.to_string(), kind, typed: false, is_init, exposed: vec![], has_run: false, has_ext: None, shadow_fields: vec![], value, twin: true, forced: vec![] });
                    new_twins.push(c.nodes.len() - 1);
                    c.nodes.len() - 1
                }
            };
            // one requirer of this directory always, the others sometimes
            let group = by_base[&base].clone();
            let first = c.t.choose(group.len());
            for (gi, r) in group.iter().enumerate() {
                if gi != first && !c.t.bool(60) {
                    continue;
                }
                match r {
                    None => c.entry_forced.push((twin, literal.clone())),
                    // a module only requires files created after it (acyclic by construction)
                    Some(i) if *i < twin => c.nodes[*i].forced.push((twin, literal.clone())),
                    Some(_) => {}
                }
            }
        }
        // the twins of this family may be the requirers of the next one
        requirers.extend(new_twins.into_iter().map(Some));
    }
    if created > 0 {
        c.feat("twin:same stem in several directories");
    }
    created
}

pub fn gen_graph(t: &mut Tape, avoid: Avoid) -> Graph {
    let luau = t.bool(128);
    let generator = gen_generator(t);
    let default_rules = t.bool(110);
    let excludes: Vec<String> = match t.weighted(&[3, 3, 1, 1, 2]) {
        0 => vec![],
        1 => vec!["@ext/**".to_string(), "**/vendor_*".to_string()],
        2 => vec!["@ext/**".to_string()],
        3 => vec!["**/vendor_*".to_string()],
        // a pattern is matched against the require path as written, leading `./` included
        _ => vec!["./gen_*".to_string(), "**/vendor_*".to_string()],
    };
    let entry = if t.bool(60) {
        "src/app/main.lua".to_string()
    } else if t.bool(80) {
        "src/main.luau".to_string()
    } else {
        "src/main.lua".to_string()
    };
    let config_path = if t.bool(70) { Some(".darklua.json5".to_string()) } else { None };
    let mut aliases: BTreeMap<String, String> = BTreeMap::new();
    let mut avoided: BTreeSet<&'static str> = BTreeSet::new();
    if config_path.is_some() {
        let dot = if avoid.alias_dot_location { "" } else { "./" };
        if t.bool(200) {
            aliases.insert("@lib".into(), format!("{}src/lib", dot));
        }
        if t.bool(128) {
            aliases.insert("@src".into(), format!("{}src", dot));
        }
        if avoid.alias_dot_location && !aliases.is_empty() {
            avoided.insert("c05-alias-dot-location");
        }
    }
    let mut c = Ctx {
        t,
        luau,
        nodes: vec![],
        counter: None,
        truth: vec![],
        features: BTreeSet::new(),
        label: 0,
        excludes: excludes.clone(),
        avoid,
        avoided,
        dirs: vec!["src".to_string(), "src/lib".to_string(), "src/lib/deep".to_string(), "src/app".to_string()],
        aliases: aliases.clone(),
        entry_forced: vec![],
    };
    // ---- Lua modules
    let n_mod = c.t.weighted(&[1, 2, 5, 6, 5, 4, 3]);
    let name_start = c.t.choose(MODULE_NAMES.len());
    for i in 0..n_mod {
        let name = MODULE_NAMES[(name_start + i) % MODULE_NAMES.len()].to_string();
        let dir = c.t.pick(&c.dirs.clone()).clone();
        let ext = if c.t.bool(90) { "luau" } else { "lua" };
        let is_init = c.t.bool(70);
        let path = if is_init {
            // children may live inside the folder
            c.dirs.push(format!("{}/{}", dir, name));
            format!("{}/{}/init.{}", dir, name, ext)
        } else {
            format!("{}/{}.{}", dir, name, ext)
        };
        let kind = match c.t.weighted(&[10, 4, 2, 2, 1]) {
            0 => Kind::Table,
            1 => Kind::Func { emits: c.t.bool(128) },
            2 => Kind::Num,
            3 => Kind::Str,
            _ => Kind::True,
        };
        let typed = matches!(kind, Kind::Table) && c.t.bool(50);
        c.nodes.push(Node { path, name, kind, typed, is_init, exposed: vec![], has_run: false, has_ext: None, shadow_fields: vec![], value: 10 * (i as i64 + 1) + 1, twin: false, forced: vec![] });
    }
    // ---- the shared counter
    if n_mod > 0 && c.t.bool(215) {
        c.counter = Some(c.nodes.len());
        let dir = if c.t.bool(60) { "src/lib" } else { "src" };
        c.nodes.push(Node { path: format!("{}/counter.lua", dir), name: "counter".into(), kind: Kind::Counter, typed: false, is_init: false, exposed: vec![], has_run: false, has_ext: None, shadow_fields: vec![], value: 0, twin: false, forced: vec![] });
    }
    // ---- data files
    let n_data = c.t.weighted(&[5, 4, 2, 1]);
    let mut data: BTreeMap<String, DVal> = BTreeMap::new();
    let mut data_texts: Vec<(String, String)> = vec![];
    for i in 0..n_data {
        let name = DATA_NAMES[i % DATA_NAMES.len()];
        let dir = c.t.pick(&["src", "src/lib", "src/data"]).to_string();
        let (ext, value, text): (&str, DVal, String) = match c.t.choose(8) {
            0 => {
                let v = gen_dobj(c.t, 0, 1);
                let pretty = c.t.bool(128);
                ("json", v.clone(), render_json(&v, pretty, 0))
            }
            1 => {
                let v = gen_dval(c.t, 0);
                ("json", v.clone(), render_json(&v, false, 0))
            }
            2 => {
                let v = gen_dobj(c.t, 0, 1);
                ("json5", v.clone(), format!("// generated\n{}\n", render_json5(&v, 0)))
            }
            3 => {
                let v = gen_dobj(c.t, 0, 1);
                ("yaml", v.clone(), render_yaml(&v))
            }
            4 => {
                let v = gen_dobj(c.t, 0, 1);
                ("yml", v.clone(), render_yaml(&v))
            }
            5 | 6 => {
                let v = gen_dobj(c.t, 0, 1);
                let sections = c.t.bool(128);
                ("toml", v.clone(), render_toml(&v, sections))
            }
            _ => {
                let s = c.t.pick(&TEXTS).to_string();
                ("txt", DVal::Str(s.clone()), s)
            }
        };
        let path = format!("{}/{}.{}", dir, name, ext);
        c.feat(&format!("data:{}", ext));
        let kind = if ext == "txt" { Kind::Txt(match &value { DVal::Str(s) => s.clone(), _ => String::new() }) } else { Kind::Data(value.clone()) };
        data.insert(path.clone(), value);
        data_texts.push((path.clone(), text));
        c.nodes.push(Node { path, name: name.to_string(), kind, typed: false, is_init: false, exposed: vec![], has_run: false, has_ext: None, shadow_fields: vec![], value: 0, twin: false, forced: vec![] });
    }
    // ---- same-named files in different directories, required with one and the same literal
    let n_twins = gen_twin_families(&mut c, &entry, n_mod);
    // ---- texts (modules from the leaves up so that exposures are known; the order of the
    //      tape reads is fixed: highest index first)
    let mut files: BTreeMap<String, String> = BTreeMap::new();
    for i in (0..c.nodes.len()).rev() {
        if matches!(c.nodes[i].kind, Kind::Counter | Kind::Data(_) | Kind::Txt(_)) {
            continue;
        }
        let text = write_module(&mut c, i);
        files.insert(c.nodes[i].path.clone(), text);
    }
    if let Some(ci) = c.counter {
        files.insert(c.nodes[ci].path.clone(), "local counter = { n = 0 }\nreturn counter\n".to_string());
    }
    for (p, text) in data_texts {
        files.insert(p, text);
    }
    let (entry_text, observes_state) = write_entry(&mut c, &entry);
    files.insert(entry.clone(), entry_text);
    // ---- cross-check every spelling with the documentation-only resolver
    let world = World { files: &files, config_dir: "" };
    let spec = ModeSpec { luau, module_folder_name: "init".into(), map: aliases.clone(), use_luau_configuration: true };
    let mut ambiguous = None;
    for tr in &c.truth {
        let Some(to) = &tr.to else { continue };
        let answer = resolver::resolve(&world, &spec, &entry, &tr.from, &tr.req);
        let ok = matches!(answer.unique(), Some(o) if o.file.as_deref() == Some(to.as_str()));
        if !ok {
            ambiguous = Some(format!("require(\"{}\") in {} was meant to reach {}; the model says {:?}", tr.req, tr.from, to, answer.accepted.iter().map(|o| o.file.clone()).collect::<Vec<_>>()));
            break;
        }
    }
    let mut features = c.features.clone();
    features.insert(format!("modules:{}", n_mod + n_twins));
    Graph {
        files,
        entry,
        luau_mode: luau,
        generator,
        default_rules,
        excludes,
        aliases,
        config_path,
        truth: c.truth,
        data,
        features,
        lua_modules: n_mod + n_twins,
        observes_state,
        ambiguous,
        avoided: c.avoided,
    }
}
