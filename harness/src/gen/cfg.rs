//! Configuration generator: every rule in string / object form, every property at default and
//! non-default values, filters, generator forms, bundle settings — and single-field corruptions.

use crate::tape::Tape;
use serde_json::{json, Map, Value};

pub const ALL_RULES: [&str; 32] = [
    "append_text_comment",
    "compute_expression",
    "convert_function_to_assignment",
    "convert_index_to_field",
    "convert_local_function_to_assign",
    "convert_luau_number",
    "convert_require",
    "convert_square_root_call",
    "filter_after_early_return",
    "group_local_assignment",
    "inject_global_value",
    "make_assignment_local",
    "remove_assertions",
    "remove_attribute",
    "remove_comments",
    "remove_compound_assignment",
    "remove_debug_profiling",
    "remove_empty_do",
    "remove_floor_division",
    "remove_function_call_parens",
    "remove_interpolated_string",
    "remove_method_call",
    "remove_method_definition",
    "remove_nil_declaration",
    "remove_spaces",
    "remove_types",
    "remove_unused_if_branch",
    "remove_unused_variable",
    "remove_unused_while",
    "rename_variables",
    "remove_if_expression",
    "remove_continue",
];

pub const ENV_SET: &str = "DLV_ENV_SET";
pub const ENV_JSON: &str = "DLV_ENV_JSON";
pub const ENV_UNSET: &str = "DLV_ENV_UNSET";

/// must be called once at start-up (single-threaded) by checks that use `env` properties
pub fn setup_env() {
    std::env::set_var(ENV_SET, "from-env");
    std::env::set_var(ENV_JSON, "{ a: 1, list: [true, 'x'] }");
    std::env::remove_var(ENV_UNSET);
}

fn obj(pairs: &[(&str, Value)]) -> Value {
    let mut m = Map::new();
    for (k, v) in pairs {
        m.insert(k.to_string(), v.clone());
    }
    Value::Object(m)
}

/// valid property sets (without the `rule` key) for a rule; the first one is the default /
/// minimal form.  Parameter-less rules have exactly one (empty) variant.
pub fn valid_variants(rule: &str) -> Vec<Value> {
    match rule {
        "append_text_comment" => vec![
            obj(&[("text", json!("hello"))]),
            obj(&[("text", json!("two\nlines"))]),
            obj(&[("text", json!("hello")), ("location", json!("start"))]),
            obj(&[("text", json!("hello")), ("location", json!("end"))]),
            obj(&[("text", json!(""))]),
            obj(&[("file", json!("header.txt"))]),
            obj(&[("file", json!("header.txt")), ("location", json!("end"))]),
        ],
        "inject_global_value" => vec![
            obj(&[("identifier", json!("GA"))]),
            obj(&[("identifier", json!("GB"))]),
            obj(&[("identifier", json!("GA")), ("value", json!(true))]),
            obj(&[("identifier", json!("GA")), ("value", json!(false))]),
            obj(&[("identifier", json!("GA")), ("value", json!(12))]),
            obj(&[("identifier", json!("GA")), ("value", json!(1.5))]),
            obj(&[("identifier", json!("GA")), ("value", json!(-3))]),
            obj(&[("identifier", json!("GA")), ("value", json!("text"))]),
            obj(&[("identifier", json!("GA")), ("value", Value::Null)]),
            obj(&[("identifier", json!("GA")), ("value", json!(["a", "b"]))]),
            obj(&[("identifier", json!("GA")), ("value", json!([1, true, "z"]))]),
            obj(&[("identifier", json!("GA")), ("value", json!({"k": 1, "nested": {"x": [1, 2]}}))]),
            obj(&[("identifier", json!("GA")), ("value", json!({"name": "path"}))]),
            obj(&[("identifier", json!("GA")), ("env", json!(ENV_SET))]),
            obj(&[("identifier", json!("GA")), ("env_json", json!(ENV_JSON))]),
            obj(&[("identifier", json!("GA")), ("env", json!(ENV_UNSET))]),
            obj(&[("identifier", json!("GA")), ("env", json!(ENV_UNSET)), ("default_value", json!(5))]),
            obj(&[("identifier", json!("GA")), ("env", json!(ENV_SET)), ("default_value", json!("dflt"))]),
        ],
        "remove_assertions" | "remove_debug_profiling" => vec![
            obj(&[]),
            obj(&[("preserve_arguments_side_effects", json!(true))]),
            obj(&[("preserve_arguments_side_effects", json!(false))]),
        ],
        "remove_attribute" => vec![
            obj(&[]),
            obj(&[("match", json!(["native"]))]),
            obj(&[("match", json!(["^dep", "xyz"]))]),
            obj(&[("match", json!([]))]),
        ],
        "remove_comments" => vec![
            obj(&[]),
            obj(&[("except", json!(["^--!"]))]),
            obj(&[("except", json!(["TODO", "^--\\["]))]),
            obj(&[("except", json!([]))]),
            obj(&[("except", json!([".*"]))]),
        ],
        "remove_interpolated_string" => vec![
            obj(&[]),
            obj(&[("strategy", json!("string"))]),
            obj(&[("strategy", json!("tostring"))]),
        ],
        "rename_variables" => vec![
            obj(&[]),
            obj(&[("globals", json!(["$default"]))]),
            obj(&[("globals", json!(["$roblox"]))]),
            obj(&[("globals", json!(["$default", "$roblox"]))]),
            obj(&[("globals", json!(["a", "b", "c"]))]),
            obj(&[("globals", json!([]))]),
            obj(&[("include_functions", json!(true))]),
            obj(&[("include_functions", json!(false))]),
            obj(&[("detect_globals", json!(false))]),
            obj(&[("detect_globals", json!(true)), ("include_functions", json!(true)), ("globals", json!(["$default", "a"]))]),
        ],
        "convert_require" => vec![
            obj(&[("current", json!("path")), ("target", json!("luau"))]),
            obj(&[("current", json!("luau")), ("target", json!("path"))]),
            obj(&[("current", json!("path")), ("target", json!("path"))]),
            obj(&[("current", json!({"name": "path", "module_folder_name": "index"})), ("target", json!("luau"))]),
            obj(&[("current", json!({"name": "path", "sources": {"pkg": "./lib"}})), ("target", json!({"name": "luau", "aliases": {"pkg": "./lib"}}))]),
            obj(&[("current", json!({"name": "path", "use_luau_configuration": false})), ("target", json!({"name": "luau", "use_luau_configuration": false}))]),
            obj(&[("current", json!("path")), ("target", json!({"name": "path", "module_folder_name": "index"}))]),
            // the roblox target: every indexing style, as a string and as an object, with and without a sourcemap
            obj(&[("current", json!("path")), ("target", json!("roblox"))]),
            obj(&[("current", json!("path")), ("target", json!({"name": "roblox", "indexing_style": "property"}))]),
            obj(&[("current", json!("path")), ("target", json!({"name": "roblox", "indexing_style": "wait_for_child"}))]),
            obj(&[("current", json!("path")), ("target", json!({"name": "roblox", "indexing_style": {"name": "find_first_child"}}))]),
            obj(&[("current", json!("path")), ("target", json!({"name": "roblox", "rojo_sourcemap": "./sourcemap.json", "indexing_style": {"name": "property"}}))]),
            obj(&[("current", json!("luau")), ("target", json!({"name": "roblox", "rojo_sourcemap": "./sourcemap.json"}))]),
        ],
        _ => vec![obj(&[])],
    }
}

/// property sets that must be REJECTED for a rule (each is one corruption)
pub fn invalid_variants(rule: &str) -> Vec<(Value, &'static str)> {
    let mut out: Vec<(Value, &'static str)> = vec![
        (obj(&[("not_a_property", json!(1))]), "unknown property"),
        (obj(&[("rules", json!([]))]), "unknown property named like a top-level key"),
    ];
    match rule {
        "append_text_comment" => {
            out.clear();
            out.extend(vec![
                (obj(&[]), "missing text/file"),
                (obj(&[("location", json!("end"))]), "missing text/file"),
                (obj(&[("text", json!("a")), ("file", json!("header.txt"))]), "text and file together"),
                (obj(&[("text", json!(5))]), "text is not a string"),
                (obj(&[("text", json!(["a"]))]), "text is a list"),
                (obj(&[("file", json!(true))]), "file is not a string"),
                (obj(&[("text", json!("a")), ("location", json!("middle"))]), "invalid location"),
                (obj(&[("text", json!("a")), ("location", json!(1))]), "location is not a string"),
                (obj(&[("text", json!("a")), ("loc", json!("end"))]), "misspelt property"),
                (obj(&[("text", json!("a")), ("not_a_property", json!(1))]), "unknown property"),
            ]);
        }
        "inject_global_value" => {
            out.clear();
            out.extend(vec![
                (obj(&[]), "missing identifier"),
                (obj(&[("value", json!(1))]), "missing identifier"),
                (obj(&[("identifier", json!(5))]), "identifier is not a string"),
                (obj(&[("identifier", json!("GA")), ("value", json!(1)), ("env", json!(ENV_SET))]), "value and env together"),
                (obj(&[("identifier", json!("GA")), ("env", json!(ENV_SET)), ("env_json", json!(ENV_JSON))]), "env and env_json together"),
                (obj(&[("identifier", json!("GA")), ("value", json!(1)), ("default_value", json!(2))]), "value and default_value together"),
                (obj(&[("identifier", json!("GA")), ("value", json!(1)), ("env_json", json!(ENV_JSON))]), "value and env_json together"),
                (obj(&[("identifier", json!("GA")), ("env_json", json!(ENV_JSON)), ("value", json!(true))]), "env_json and value together"),
                (obj(&[("identifier", json!("GA")), ("value", json!(1)), ("env", json!(ENV_SET)), ("env_json", json!(ENV_JSON))]), "value, env and env_json together"),
                (obj(&[("identifier", json!("GA")), ("env", json!(5))]), "env is not a string"),
                (obj(&[("identifier", json!("GA")), ("valeu", json!(5))]), "misspelt property"),
                (obj(&[("identifier", json!("GA")), ("not_a_property", json!(1))]), "unknown property"),
            ]);
        }
        "remove_assertions" | "remove_debug_profiling" => {
            out.extend(vec![
                (obj(&[("preserve_arguments_side_effects", json!("yes"))]), "boolean expected"),
                (obj(&[("preserve_arguments_side_effects", json!(1))]), "boolean expected"),
                (obj(&[("preserve_argument_side_effects", json!(true))]), "misspelt property"),
            ]);
        }
        "remove_attribute" => {
            out.extend(vec![
                (obj(&[("match", json!("native"))]), "list expected"),
                (obj(&[("match", json!(["("]))]), "invalid regex"),
                (obj(&[("match", json!([1]))]), "list of strings expected"),
                (obj(&[("matches", json!(["a"]))]), "misspelt property"),
            ]);
        }
        "remove_comments" => {
            out.extend(vec![
                (obj(&[("except", json!("^--!"))]), "list expected"),
                (obj(&[("except", json!(["[a-"]))]), "invalid regex"),
                (obj(&[("except", json!(true))]), "list expected"),
                (obj(&[("exept", json!(["a"]))]), "misspelt property"),
            ]);
        }
        "remove_interpolated_string" => {
            out.extend(vec![
                (obj(&[("strategy", json!("format"))]), "invalid strategy"),
                (obj(&[("strategy", json!(1))]), "string expected"),
                (obj(&[("stratgy", json!("string"))]), "misspelt property"),
            ]);
        }
        "rename_variables" => {
            out.extend(vec![
                (obj(&[("globals", json!("$default"))]), "list expected"),
                (obj(&[("globals", json!(["not an identifier"]))]), "invalid identifier"),
                (obj(&[("globals", json!(["$unknown"]))]), "unknown global group"),
                (obj(&[("include_functions", json!("true"))]), "boolean expected"),
                (obj(&[("detect_globals", json!(0))]), "boolean expected"),
                (obj(&[("include_function", json!(true))]), "misspelt property"),
            ]);
        }
        "convert_require" => {
            out.clear();
            out.extend(vec![
                (obj(&[]), "missing current/target"),
                (obj(&[("current", json!("path"))]), "missing target"),
                (obj(&[("target", json!("path"))]), "missing current"),
                (obj(&[("current", json!("nope")), ("target", json!("path"))]), "unknown mode name"),
                (obj(&[("current", json!({"name": "path", "bogus": 1})), ("target", json!("path"))]), "unknown key in mode object"),
                (obj(&[("current", json!({"name": "path", "module_folder_name": 5})), ("target", json!("path"))]), "ill-typed mode option"),
                (obj(&[("current", json!(5)), ("target", json!("path"))]), "mode is a number"),
                (obj(&[("current", json!("path")), ("target", json!("path")), ("not_a_property", json!(1))]), "unknown property"),
            ]);
        }
        _ => {}
    }
    out
}

pub fn with_rule(rule: &str, props: &Value) -> Value {
    let mut m = Map::new();
    m.insert("rule".into(), json!(rule));
    if let Some(o) = props.as_object() {
        for (k, v) in o {
            m.insert(k.clone(), v.clone());
        }
    }
    Value::Object(m)
}

pub fn requires_object_form(rule: &str) -> bool {
    matches!(rule, "append_text_comment" | "inject_global_value" | "convert_require")
}

pub const GLOBS: [&str; 10] = [
    "**/*.lua",
    "src/*.lua",
    "src/**",
    "src/sub/**/*.lua",
    "**/b.*",
    "src/{a,c}.lua",
    "src/?.lua",
    "**/*.luau",
    "nothing/**",
    "**",
];

pub fn valid_generators() -> Vec<Value> {
    vec![
        json!("retain_lines"),
        json!("retain-lines"),
        json!("dense"),
        json!("readable"),
        json!({"name": "retain_lines"}),
        json!({"name": "dense"}),
        json!({"name": "dense", "column_span": 20}),
        json!({"name": "dense", "column_span": 0}),
        json!({"name": "readable"}),
        json!({"name": "readable", "column_span": 30}),
    ]
}

pub fn invalid_generators() -> Vec<(Value, &'static str)> {
    vec![
        (json!("compact"), "unknown generator name"),
        (json!({"name": "dense", "span": 1}), "misspelt generator key"),
        (json!({"name": "dense", "column_span": "x"}), "ill-typed column_span"),
        (json!({"name": "dense", "column_span": -1}), "negative column_span"),
        (json!({"column_span": 3}), "generator without name"),
        (json!({"name": "retain_lines", "column_span": 3}), "column_span on retain_lines"),
        (json!(5), "generator is a number"),
        (json!(["dense"]), "generator is a list"),
    ]
}

pub fn valid_bundles() -> Vec<Value> {
    vec![
        json!({"require_mode": "path"}),
        json!({"require_mode": "luau"}),
        json!({"require_mode": {"name": "path"}}),
        json!({"require_mode": {"name": "path", "module_folder_name": "index"}}),
        json!({"require_mode": {"name": "path", "sources": {"pkg": "./lib"}}}),
        json!({"require_mode": {"name": "path", "use_luau_configuration": false}}),
        json!({"require_mode": {"name": "luau", "aliases": {"pkg": "./lib"}}}),
        json!({"require_mode": "path", "modules_identifier": "__MODS"}),
        json!({"require_mode": "path", "excludes": ["**/dep*"]}),
        json!({"require_mode": "path", "excludes": ["@lune/**", "**/dep*"]}),
        json!({"require_mode": "path", "excludes": []}),
    ]
}

pub fn invalid_bundles() -> Vec<(Value, &'static str)> {
    vec![
        (json!({}), "bundle without require_mode"),
        (json!({"require_mode": "roblox"}), "unsupported bundle mode"),
        (json!({"require_mode": "nope"}), "unknown mode"),
        (json!({"require_mode": "path", "extra": 1}), "unknown bundle key"),
        (json!({"require_mode": "path", "excludes": "x"}), "excludes is a string"),
        (json!({"require_mode": "path", "excludes": [1]}), "excludes has a number"),
        (json!({"require_mode": "path", "modules_identifier": 5}), "ill-typed modules_identifier"),
        (json!({"require_mode": {"name": "path", "bogus": true}}), "unknown key in mode"),
        (json!({"require_mode": {"module_folder_name": "x"}}), "mode object without name"),
        (json!({"require_mode": "path", "excludes": ["**a"]}), "invalid glob in excludes"),
        (json!("path"), "bundle is a string"),
    ]
}

pub fn gen_filter_value(t: &mut Tape) -> Value {
    match t.weighted(&[3, 2, 1, 1]) {
        0 => json!(*t.pick(&GLOBS)),
        1 => json!([*t.pick(&GLOBS)]),
        2 => json!([*t.pick(&GLOBS), *t.pick(&GLOBS)]),
        _ => json!([]),
    }
}

/// attach filters to an object-form rule
pub fn add_filters(t: &mut Tape, rule: &mut Value) {
    let mode = t.weighted(&[4, 2, 2, 2]);
    if mode == 1 || mode == 3 {
        rule["apply_to_files"] = gen_filter_value(t);
    }
    if mode == 2 || mode == 3 {
        rule["skip_files"] = gen_filter_value(t);
    }
}

/// one rule entry (string or object form), with random valid properties and optional filters
pub fn gen_rule_entry(t: &mut Tape, rule: &str, allow_filters: bool) -> Value {
    let variants = valid_variants(rule);
    let props = variants[t.choose(variants.len())].clone();
    let empty = props.as_object().map(|o| o.is_empty()).unwrap_or(true);
    let filters = allow_filters && t.bool(90);
    if empty && !filters && !requires_object_form(rule) && t.bool(170) {
        return json!(rule);
    }
    let mut r = with_rule(rule, &props);
    if filters {
        add_filters(t, &mut r);
    }
    r
}

pub struct CfgOpts {
    pub max_rules: usize,
    pub allow_filters: bool,
    pub allow_bundle: bool,
    pub allow_convert_require: bool,
}

pub fn gen_config(t: &mut Tape, o: &CfgOpts) -> Value {
    let mut m = Map::new();
    let n = t.choose(o.max_rules + 1);
    let mut rules = vec![];
    for _ in 0..n {
        let mut name = *t.pick(&ALL_RULES);
        if name == "convert_require" && !o.allow_convert_require {
            name = "remove_spaces";
        }
        rules.push(gen_rule_entry(t, name, o.allow_filters));
    }
    if !(rules.is_empty() && t.bool(40)) {
        // `process` is a documented alias of `rules`
        m.insert(if t.bool(20) { "process".into() } else { "rules".into() }, Value::Array(rules));
    }
    if t.bool(140) {
        let g = valid_generators();
        m.insert("generator".into(), g[t.choose(g.len())].clone());
    }
    if o.allow_bundle && t.bool(50) {
        let b = valid_bundles();
        m.insert("bundle".into(), b[t.choose(b.len())].clone());
    }
    if o.allow_filters && t.bool(50) {
        m.insert("apply_to_files".into(), gen_filter_value(t));
    }
    if o.allow_filters && t.bool(50) {
        m.insert("skip_files".into(), gen_filter_value(t));
    }
    Value::Object(m)
}
