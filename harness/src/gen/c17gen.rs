//! Generator for C17: programs that call `assert`, `debug.profilebegin/profileend` and read an
//! injected global in every position, under shadowing of the targeted names.

use crate::luaref::PresetValue;
use crate::tape::Tape;
use serde_json::{json, Value};

pub const NAME: &str = "FLAG";

#[derive(Clone, Debug, PartialEq)]
pub enum VKind {
    Nil,
    Bool,
    Num,
    Str,
    Arr,
    Obj,
}

#[derive(Clone, Debug)]
pub struct Injected {
    pub json: Value,
    pub preset: PresetValue,
    pub kind: VKind,
}

pub fn gen_value(t: &mut Tape, avoid_require_mode_object: bool) -> Injected {
    let mut c = t.choose(14);
    if avoid_require_mode_object && c == 12 {
        c = 13;
    }
    let (json, kind) = match c {
        0 => (Value::Null, VKind::Nil),
        1 => (json!(true), VKind::Bool),
        2 => (json!(false), VKind::Bool),
        3 => (json!(0), VKind::Num),
        4 => (json!(12), VKind::Num),
        5 => (json!(1.5), VKind::Num),
        6 => (json!(-3), VKind::Num),
        7 => (json!("text"), VKind::Str),
        8 => (json!(""), VKind::Str),
        9 => (json!(["a", "b"]), VKind::Arr),
        10 => (json!([1, true, "z"]), VKind::Arr),
        11 => (json!({"k": 1, "nested": {"x": [1, 2]}}), VKind::Obj),
        12 => (json!({"name": "path"}), VKind::Obj),
        _ => (json!({"k": "v", "end": 2, "with space": true}), VKind::Obj),
    };
    let preset = to_preset(&json);
    Injected { json, preset, kind }
}

pub fn to_preset(v: &Value) -> PresetValue {
    match v {
        Value::Null => PresetValue::Nil,
        Value::Bool(b) => PresetValue::Bool(*b),
        Value::Number(n) => PresetValue::Num(n.as_f64().unwrap_or(0.0)),
        Value::String(s) => PresetValue::Str(s.as_bytes().to_vec()),
        Value::Array(a) => PresetValue::Array(a.iter().map(to_preset).collect()),
        Value::Object(o) => {
            let mut items: Vec<(String, PresetValue)> = o.iter().filter(|(_, v)| !v.is_null()).map(|(k, v)| (k.clone(), to_preset(v))).collect();
            items.sort_by(|a, b| a.0.cmp(&b.0));
            PresetValue::Object(items)
        }
    }
}

#[derive(Default, Clone, Debug)]
pub struct C17Stats {
    pub global_target_uses: u32,
    pub shadowed_target_uses: u32,
    pub field_of_other_table: u32,
    pub side_effect_args: u32,
    pub expr_position: u32,
    pub prefix_position: u32,
}

struct G<'a, 'b> {
    t: &'a mut Tape<'b>,
    out: String,
    /// stack of scopes: names shadowed in each (subset of assert debug select _G FLAG)
    shadow: Vec<Vec<(&'static str, VKind)>>,
    inj_kind: VKind,
    depth: usize,
    counter: u32,
    st: C17Stats,
    has_t: bool,
}

impl<'a, 'b> G<'a, 'b> {
    fn shadowed(&self, n: &str) -> Option<VKind> {
        for sc in self.shadow.iter().rev() {
            for (k, v) in sc.iter().rev() {
                if *k == n {
                    return Some(v.clone());
                }
            }
        }
        None
    }

    fn note_use(&mut self, n: &str) {
        if self.shadowed(n).is_some() {
            self.st.shadowed_target_uses += 1;
        } else {
            self.st.global_target_uses += 1;
        }
    }

    fn lit(&mut self) -> String {
        ["true", "1", "\"msg\"", "nil", "false", "0", "\"\"", "{}", "2.5"][self.t.choose(9)].to_string()
    }

    fn arg(&mut self) -> String {
        match self.t.weighted(&[4, 4, 1, 1, 1, 2, 3, 2]) {
            7 => {
                // a call behind a value the rules cannot know (a global): it runs or not at run time
                self.st.side_effect_args += 1;
                let l = self.lit();
                match self.t.choose(10) {
                    7 => format!("if UNSET_FLAG then {} else probe1(2)", l),
                    8 => format!("if UNSET_FLAG then 1 elseif UNSET_FLAG then 2 else probe1({})", l),
                    9 => format!("if OTHER_FLAG then probe1({}) else 2", l),
                    0 => format!("OTHER_FLAG and probe1({})", l),
                    1 => format!("UNSET_FLAG or probe1({})", l),
                    2 => format!("UNSET_FLAG and probe1({})", l),
                    3 => format!("OTHER_FLAG or probe1({})", l),
                    4 => format!("(OTHER_FLAG and UNSET_FLAG) or probe1({})", l),
                    // Luau if-expressions: the call sits in one branch only
                    5 => format!("if OTHER_FLAG then {} else probe1(2)", l),
                    _ => format!("if UNSET_FLAG then {} elseif probe1(false) then 1 else probe1(3)", l),
                }
            }
            6 => {
                // a call under an operator: the side effect is still there
                self.st.side_effect_args += 1;
                let l = self.lit();
                match self.t.choose(8) {
                    0 => format!("not probe1({})", l),
                    1 => format!("-probe1(1)"),
                    2 => format!("#probe1(\"s\")"),
                    3 => format!("probe1(1) + 1"),
                    4 => format!("probe1({}) == {}", l, l),
                    5 => format!("probe1({}) and 2", l),
                    6 => format!("{} or probe1({})", l, l),
                    _ => format!("probe1(\"a\") .. \"b\""),
                }
            }
            5 => {
                // no call in sight, but evaluating it is observable: a field read, an index or an
                // operator on a value with metamethods (LOUD__ is defined by the prelude)
                self.st.side_effect_args += 1;
                ["LOUD__.volume", "LOUD__[1]", "\"mix \" .. LOUD__", "LOUD__ .. \"x\"", "-LOUD__", "LOUD__ + 1", "#LOUD__", "LOUD__.a.b"][self.t.choose(8)].to_string()
            }
            0 => self.lit(),
            1 => {
                self.st.side_effect_args += 1;
                format!("probe1({})", self.lit())
            }
            2 => {
                self.st.side_effect_args += 1;
                format!("{{ probe1({}) }}", self.lit())
            }
            3 => {
                self.st.side_effect_args += 1;
                format!("(probe2({}))", self.lit())
            }
            _ => format!("{} == {}", self.lit(), self.lit()),
        }
    }

    /// argument list; the last one may be multi-valued
    fn args(&mut self, min: usize) -> String {
        let n = min + self.t.weighted(&[3, 4, 2, 1]);
        let mut v: Vec<String> = (0..n).map(|_| self.arg()).collect();
        if n > 0 && self.t.bool(50) {
            self.st.side_effect_args += 1;
            let l = self.lit();
            *v.last_mut().unwrap() = match self.t.choose(3) {
                0 => format!("probe2({})", l),
                1 => "probe0()".to_string(),
                _ => format!("probe({}, {})", l, l),
            };
        }
        v.join(", ")
    }

    fn line(&mut self, s: &str) {
        self.out.push_str(s);
        self.out.push('\n');
    }

    /// an expression reading the injected name, valid for the kind visible at this point
    fn name_read(&mut self) -> String {
        let shadow_kind = self.shadowed(NAME);
        let g_shadow = self.shadowed("_G").is_some();
        let kind = shadow_kind.clone().unwrap_or(self.inj_kind.clone());
        self.note_use(NAME);
        let via = match (shadow_kind.is_some(), self.t.choose(3)) {
            (false, 1) => {
                if g_shadow {
                    // a local `_G` table carries its own FLAG (a number, or an object read through a prefix)
                    if self.shadowed("_G") == Some(VKind::Obj) && self.t.bool(128) {
                        return format!("_G.{}.k", NAME);
                    }
                    return format!("_G.{}", NAME);
                }
                format!("_G.{}", NAME)
            }
            (false, 2) => {
                if g_shadow {
                    if self.shadowed("_G") == Some(VKind::Obj) && self.t.bool(160) {
                        return if self.t.bool(128) { format!("_G[\"{}\"].k", NAME) } else { format!("_G[\"{}\"][\"name\"]", NAME) };
                    }
                    return format!("_G[\"{}\"]", NAME);
                }
                format!("_G[\"{}\"]", NAME)
            }
            _ => NAME.to_string(),
        };
        let bare = via == NAME;
        match (kind, self.t.choose(4)) {
            (_, 0) => via,
            (VKind::Obj, 1) => {
                if bare {
                    self.st.prefix_position += 1;
                }
                format!("{}.k", via)
            }
            (VKind::Obj, 2) => {
                if bare {
                    self.st.prefix_position += 1;
                }
                format!("{}[\"name\"]", via)
            }
            (VKind::Arr, 1) => {
                if bare {
                    self.st.prefix_position += 1;
                }
                format!("{}[1]", via)
            }
            (VKind::Arr, 2) => format!("#{}", via),
            (VKind::Str, 1) => {
                if bare {
                    self.st.prefix_position += 1;
                }
                format!("{}:upper()", via)
            }
            (VKind::Str, 2) => format!("#{}", via),
            (VKind::Str, 3) => format!("{} .. \"!\"", via),
            (VKind::Num, 1) => format!("{} + 1", via),
            (VKind::Num, 2) => format!("-{}", via),
            (VKind::Bool, 1) => format!("not {}", via),
            (_, 3) => format!("{} == nil", via),
            _ => format!("type({})", via),
        }
    }

    fn stmt(&mut self) {
        let w = [8, 6, 6, 8, 5, 4, 3, 2, 7, 3];
        match self.t.weighted(&w) {
            8 => self.structural_position(),
            9 => self.function_statement_shadow(),
            0 => {
                // targeted call statements
                match self.t.choose(3) {
                    0 => {
                        self.note_use("assert");
                        let a = self.args(1);
                        self.line(&format!("assert({})", a));
                    }
                    1 => {
                        self.note_use("debug");
                        let a = self.args(0);
                        self.line(&format!("debug.profilebegin({})", a));
                    }
                    _ => {
                        self.note_use("debug");
                        let a = if self.t.bool(60) { self.args(1) } else { String::new() };
                        self.line(&format!("debug.profileend({})", a));
                    }
                }
            }
            1 => {
                // assert in expression position
                self.note_use("assert");
                self.st.expr_position += 1;
                let a = self.args(1);
                self.counter += 1;
                let c = self.counter;
                match self.t.choose(7) {
                    0 => self.line(&format!("emit(assert({}))", a)),
                    1 => self.line(&format!("local r{c}, s{c} = assert({}) emit(r{c}, s{c})", a)),
                    2 => self.line(&format!("emit((assert({})))", a)),
                    3 => self.line(&format!("emit(assert({}) == nil, 1)", a)),
                    4 => self.line(&format!("if assert({}) then emit(\"yes\") else emit(\"no\") end", a)),
                    5 => self.line(&format!("emit({{ assert({}) }})", a)),
                    _ => {
                        let b = self.arg();
                        self.line(&format!("emit(assert(assert({}), {}))", a, b))
                    }
                }
            }
            2 => {
                // profiling calls in single-value expression positions
                self.note_use("debug");
                self.st.expr_position += 1;
                let a = self.args(0);
                self.counter += 1;
                let c = self.counter;
                let f = if self.t.bool(128) { "profilebegin" } else { "profileend" };
                match self.t.choose(4) {
                    0 => self.line(&format!("local p{c} = debug.{f}({}) emit(p{c})", a)),
                    1 => self.line(&format!("emit((debug.{f}({})))", a)),
                    2 => self.line(&format!("emit(debug.{f}({}) == nil, 1)", a)),
                    _ => self.line(&format!("emit(debug.{f}({}), 2)", a)),
                }
            }
            3 => {
                // reads of the injected global
                self.st.expr_position += 1;
                let r = self.name_read();
                match self.t.choose(4) {
                    0 => self.line(&format!("emit({})", r)),
                    1 => {
                        self.counter += 1;
                        self.line(&format!("local c{} = {} emit(c{})", self.counter, r, self.counter))
                    }
                    2 => self.line(&format!("if {} then emit(\"truthy\") else emit(\"falsy\") end", r)),
                    _ => {
                        let a = self.arg();
                        self.line(&format!("emit({}, {})", a, r))
                    }
                }
            }
            4 => self.shadow_decl(),
            5 => {
                // nested scopes
                if self.depth >= 3 {
                    return;
                }
                self.depth += 1;
                match self.t.choose(4) {
                    0 => {
                        self.line("do");
                        self.shadow.push(vec![]);
                        self.block();
                        self.shadow.pop();
                        self.line("end");
                    }
                    1 => {
                        // a function with a parameter named like a target, called immediately
                        let (p, val, kind) = match self.t.choose(4) {
                            0 => ("assert", "function(...) emit(\"param-assert\", ...) return ... end".to_string(), VKind::Nil),
                            1 => (NAME, "7".to_string(), VKind::Num),
                            2 => ("debug", "{ profilebegin = function(...) emit(\"param-begin\", ...) end, profileend = function(...) emit(\"param-end\", ...) end }".to_string(), VKind::Nil),
                            _ => ("select", "function(...) emit(\"param-select\") return ... end".to_string(), VKind::Nil),
                        };
                        self.line(&format!("do local fn = function({p})"));
                        self.shadow.push(vec![(p, kind)]);
                        self.block();
                        self.shadow.pop();
                        self.line(&format!("end fn({}) end", val));
                    }
                    2 => {
                        self.line(&format!("for {} = 1, 2 do", NAME));
                        self.shadow.push(vec![(NAME, VKind::Num)]);
                        self.block();
                        self.shadow.pop();
                        self.line("end");
                    }
                    _ => {
                        let c = self.arg();
                        self.line(&format!("if {} then", c));
                        self.shadow.push(vec![]);
                        self.block();
                        self.shadow.pop();
                        self.line("else");
                        self.shadow.push(vec![]);
                        self.block();
                        self.shadow.pop();
                        self.line("end");
                    }
                }
                self.depth -= 1;
            }
            6 => {
                // same names as fields of another table
                if !self.has_t {
                    self.line("local t = { assert = function(...) emit(\"t.assert\", ...) return ... end, debug = { profilebegin = function(...) emit(\"t.begin\", ...) end, profileend = function(...) emit(\"t.end\", ...) end }, FLAG = 3, _G = { FLAG = 4 } }");
                    self.has_t = true;
                }
                self.st.field_of_other_table += 1;
                let a = self.args(0);
                match self.t.choose(6) {
                    0 => self.line(&format!("t.assert({})", a)),
                    1 => self.line(&format!("emit(t.assert({}))", a)),
                    2 => self.line(&format!("t.debug.profilebegin({})", a)),
                    3 => self.line(&format!("emit(t.{}, t._G.{})", NAME, NAME)),
                    4 => self.line(&format!("emit(t:assert({}))", a)),
                    _ => self.line(&format!("t.debug.profileend({})", a)),
                }
            }
            _ => {
                let a = self.args(1);
                self.line(&format!("emit({})", a));
            }
        }
    }

    /// a targeted call / read inside the header of a statement or another nested position: loop
    /// bounds and steps, iterator lists, conditions, return lists, table fields, method arguments
    fn structural_position(&mut self) {
        self.st.expr_position += 1;
        let e = match self.t.choose(4) {
            0 | 1 => {
                self.note_use("assert");
                let a = self.args(1);
                format!("assert({})", a)
            }
            2 => self.name_read(),
            _ => {
                self.note_use("debug");
                let a = self.args(0);
                format!("(debug.{}({}))", if self.t.bool(128) { "profilebegin" } else { "profileend" }, a)
            }
        };
        self.counter += 1;
        let c = self.counter;
        let text = match self.t.choose(14) {
            0 => format!("for i{c} = 1, (type({e}) == \"number\" and 2 or 1) do emit(\"loop\", i{c}) end"),
            1 => format!("for i{c} = (type({e}) == \"number\" and 1 or 2), 2 do emit(\"loop\", i{c}) end"),
            2 => format!("for i{c} = 1, 2, (type({e}) == \"number\" and 1 or 2) do emit(\"loop\", i{c}) end"),
            3 => format!("for k{c}, v{c} in ipairs({{ ({e}) }}) do emit(k{c}, v{c}) end"),
            4 => format!("while {e} do emit(\"while\") break end"),
            5 => format!("repeat emit(\"repeat\") until {e} or true"),
            6 => format!("if false then emit(\"never\") elseif {e} then emit(\"elseif\") else emit(\"else\") end"),
            7 => format!("local function rf{c}() return {e} end emit(rf{c}())"),
            8 => format!("emit(({{ [1] = {e} }})[1], ({{ k = {e} }}).k)"),
            9 => format!("local o{c} = {{ m = function(self, ...) return ... end }} emit(o{c}:m({e}))"),
            10 => format!("emit(not {e}, ({e}) and 1 or 2)"),
            11 => format!("local u{c} u{c} = {e} emit(u{c})"),
            12 => format!("local w{c} = {{}} w{c}[({e}) == nil and 1 or 2] = {e} emit(w{c}[1], w{c}[2])"),
            _ => format!("emit((function(...) return select(\"#\", ...) end)({e}))"),
        };
        self.line(&text);
    }

    /// functions declared by a statement with a parameter named like a target: the parameter must
    /// not be visible after the function (statements that follow at the same level use the global)
    fn function_statement_shadow(&mut self) {
        if self.depth >= 3 {
            return;
        }
        let (p, val, kind) = match self.t.choose(4) {
            0 => ("assert", "function(...) emit(\"param-assert\", ...) return ... end".to_string(), VKind::Nil),
            1 => (NAME, "7".to_string(), VKind::Num),
            2 => ("debug", "{ profilebegin = function(...) emit(\"param-begin\", ...) end, profileend = function(...) emit(\"param-end\", ...) end }".to_string(), VKind::Nil),
            _ => ("_G", format!("{{ {} = 5 }}", NAME), VKind::Num),
        };
        self.counter += 1;
        let c = self.counter;
        let (head, call) = match self.t.choose(4) {
            0 => (format!("local function lf{c}({p})"), format!("lf{c}({val})")),
            1 => (format!("function gf{c}(first, {p})"), format!("gf{c}(1, {val})")),
            2 => (format!("local lv{c} = function({p}, ...)"), format!("lv{c}({val}, 2)")),
            _ => (format!("local holder{c} = {{}} function holder{c}:method({p})"), format!("holder{c}:method({val})")),
        };
        self.depth += 1;
        self.line(&head);
        self.shadow.push(vec![(p, kind)]);
        self.block();
        self.shadow.pop();
        self.line("end");
        self.line(&call);
        self.depth -= 1;
    }

    fn shadow_decl(&mut self) {
        let (name, text, kind): (&'static str, String, VKind) = match self.t.choose(6) {
            0 => ("assert", "local assert = function(...) emit(\"local-assert\", ...) return ... end".into(), VKind::Nil),
            1 => (
                "debug",
                "local debug = { profilebegin = function(...) emit(\"local-begin\", ...) end, profileend = function(...) emit(\"local-end\", ...) return 1 end }".into(),
                VKind::Nil,
            ),
            2 => {
                let (v, k) = match self.t.choose(4) {
                    0 => ("{ k = \"local\", name = 9 }", VKind::Obj),
                    1 => ("\"local\"", VKind::Str),
                    2 => ("41", VKind::Num),
                    _ => ("false", VKind::Bool),
                };
                (NAME, format!("local {} = {}", NAME, v), k)
            }
            3 => {
                if self.t.bool(110) {
                    // an object-valued field, so that `_G["FLAG"]` of the LOCAL table can stand in prefix position
                    ("_G", format!("local _G = {{ {} = {{ k = \"g-local\", name = 8 }} }}", NAME), VKind::Obj)
                } else {
                    ("_G", format!("local _G = {{ {} = 5 }}", NAME), VKind::Num)
                }
            }
            4 => ("select", "local select = function(...) emit(\"local-select\") return ... end".into(), VKind::Nil),
            _ => ("assert", "local function assert(...) emit(\"local-fn-assert\", ...) return ... end".into(), VKind::Nil),
        };
        self.line(&text);
        self.shadow.last_mut().unwrap().push((name, kind));
    }

    fn block(&mut self) {
        let n = 1 + self.t.choose(4);
        for _ in 0..n {
            self.stmt();
        }
    }
}

pub struct C17Program {
    pub source: String,
    pub value: Injected,
    pub stats: C17Stats,
}

pub fn gen(t: &mut Tape, avoid_require_mode_object: bool) -> C17Program {
    let value = gen_value(t, avoid_require_mode_object);
    let mut g = G { t, out: String::new(), shadow: vec![vec![]], inj_kind: value.kind.clone(), depth: 0, counter: 0, st: C17Stats::default(), has_t: false };
    // a value whose every operation is observable
    g.line("local LOUD__ = setmetatable({}, { __index = function(_, k) emit(\"index\", k) return { b = 2 } end, __concat = function() emit(\"concat\") return \"c\" end, __unm = function() emit(\"unm\") return 1 end, __add = function() emit(\"add\") return 2 end, __len = function() emit(\"len\") return 3 end })");
    // other globals, read through _G with a string key like the injected one
    g.line("OTHER_FLAG = 41 _G.FLAG2 = \"two\"");
    let n = 3 + g.t.choose(10);
    for _ in 0..n {
        g.stmt();
        if g.t.bool(40) && g.shadowed("_G").is_none() {
            g.st.expr_position += 1;
            let other = ["_G[\"OTHER_FLAG\"]", "_G[\"FLAG2\"]", "_G[\"UNSET_FLAG\"]", "_G.OTHER_FLAG", "_G[\"FLAGX\"]"][g.t.choose(5)];
            match g.t.choose(3) {
                0 => g.line(&format!("emit({})", other)),
                1 => g.line(&format!("if {} then emit(\"other set\") else emit(\"other unset\") end", other)),
                _ => g.line(&format!("local o = {} emit(o, {})", other, other)),
            }
        }
    }
    g.line("emit(\"end\")");
    C17Program { source: g.out, value, stats: g.st }
}
