//! Unusual syntactic homes for a whole program: the generated block becomes the body of a function
//! that sits in a table passed without parentheses, behind a string call, in a method definition,
//! in an if-expression ... and is called exactly once, its results returned. The program behaves
//! as before (main chunks receive no arguments; the function is variadic), but every construct in
//! it is now reached through that position (visitors that forget to descend there miss all of it).

use crate::luasyn::ast::*;
use crate::tape::Tape;

fn nm(s: &str) -> Expr {
    Expr::Name(s.to_string())
}

fn call(f: Expr, args: Vec<Expr>, sugar: CallSugar) -> Expr {
    Expr::Call { f: Box::new(f), args, sugar }
}

fn func(params: &[&str], vararg: bool, body: Vec<Stmt>) -> Expr {
    Expr::Function {
        attrs: vec![],
        func: Box::new(FuncBody { generics: None, params: params.iter().map(|p| Binding::new(*p)).collect(), vararg, vararg_ty: None, ret_ty: None, body: Block::new(body) }),
    }
}

fn local(name: &str, value: Expr) -> Stmt {
    Stmt::Local { is_const: false, names: vec![Binding::new(name)], values: vec![value] }
}

pub const CONTEXTS: usize = 9;

/// `kind` in 0..CONTEXTS; kinds 7 and 8 need Luau
pub fn wrap_block_in(block: Block, kind: usize) -> Block {
    let body = Expr::Function {
        attrs: vec![],
        func: Box::new(FuncBody { generics: None, params: vec![], vararg: true, vararg_ty: None, ret_ty: None, body: block }),
    };
    let field = |o: Expr, n: &str| Expr::Field { obj: Box::new(o), name: n.to_string() };
    let stmts = match kind {
        // a table passed without parentheses
        0 => vec![
            local("call__", func(&["t"], false, vec![Stmt::Return(vec![call(field(nm("t"), "render"), vec![], CallSugar::Parens)])])),
            Stmt::Return(vec![call(nm("call__"), vec![Expr::Table(vec![TableItem::Named("render".into(), body)])], CallSugar::Table)]),
        ],
        // a method call with a table passed without parentheses, positional item
        1 => vec![
            local(
                "obj__",
                Expr::Table(vec![TableItem::Named(
                    "run".into(),
                    func(&["self", "t"], false, vec![Stmt::Return(vec![call(Expr::Index { obj: Box::new(nm("t")), key: Box::new(Expr::Number { raw: "1".into(), value: 1.0 }) }, vec![], CallSugar::Parens)])]),
                )]),
            ),
            Stmt::Return(vec![Expr::MethodCall { obj: Box::new(nm("obj__")), name: "run".into(), types: None, args: vec![Expr::Table(vec![TableItem::Pos(body)])], sugar: CallSugar::Table }]),
        ],
        // behind a string call: str__ "s" (function ... end)
        2 => vec![
            local("str__", func(&["s"], false, vec![Stmt::Return(vec![func(&["f"], false, vec![Stmt::Return(vec![call(nm("f"), vec![], CallSugar::Parens)])])])])),
            Stmt::Return(vec![call(call(nm("str__"), vec![Expr::Str { raw: String::new(), value: b"s".to_vec() }], CallSugar::Str), vec![body], CallSugar::Parens)]),
        ],
        // function statement with a field name
        3 => vec![
            local("t__", Expr::Table(vec![TableItem::Named("a".into(), Expr::Table(vec![]))])),
            Stmt::Function { attrs: vec![], name: FuncName { base: "t__".into(), fields: vec!["a".into(), "b".into()], method: None }, func: func_body(body) },
            Stmt::Return(vec![call(field(field(nm("t__"), "a"), "b"), vec![], CallSugar::Parens)]),
        ],
        // method definition
        4 => vec![
            local("t__", Expr::Table(vec![])),
            Stmt::Function { attrs: vec![], name: FuncName { base: "t__".into(), fields: vec![], method: Some("m".into()) }, func: func_body(body) },
            Stmt::Return(vec![Expr::MethodCall { obj: Box::new(nm("t__")), name: "m".into(), types: None, args: vec![], sugar: CallSugar::Parens }]),
        ],
        // a keyed table item reached through an index
        5 => vec![
            local("k__", Expr::Table(vec![TableItem::Keyed(Expr::Str { raw: String::new(), value: b"the key".to_vec() }, body)])),
            Stmt::Return(vec![call(Expr::Index { obj: Box::new(nm("k__")), key: Box::new(Expr::Str { raw: String::new(), value: b"the key".to_vec() }) }, vec![], CallSugar::Parens)]),
        ],
        // a generic for (whose iterator ends at once) in front, the function behind a call of a call
        6 => vec![
            local("once__", func(&["f"], false, vec![Stmt::Return(vec![nm("f")])])),
            Stmt::GenFor {
                vars: vec![Binding::new("_unused__")],
                exprs: vec![func(&[], false, vec![]), call(nm("once__"), vec![Expr::Nil], CallSugar::Parens)],
                body: Block::new(vec![]),
            },
            Stmt::Return(vec![call(call(nm("once__"), vec![body], CallSugar::Parens), vec![], CallSugar::Parens)]),
        ],
        // if-expression (Luau)
        7 => vec![Stmt::Return(vec![call(
            Expr::Paren(Box::new(Expr::IfExpr { clauses: vec![(nm("call__unknown"), Expr::Nil)], else_: Box::new(body) })),
            vec![],
            CallSugar::Parens,
        )])],
        // behind a type cast (Luau)
        _ => vec![Stmt::Return(vec![call(
            Expr::Paren(Box::new(Expr::Cast { expr: Box::new(body), ty: Box::new(Type::Name(TypeName { name: "any".into(), params: None })) })),
            vec![],
            CallSugar::Parens,
        )])],
    };
    Block::new(stmts)
}

fn func_body(f: Expr) -> FuncBody {
    match f {
        Expr::Function { func, .. } => *func,
        _ => unreachable!(),
    }
}

/// wraps with probability `per_256`/256; Lua 5.1 programs only get the 5.1 contexts
pub fn maybe_wrap(block: Block, t: &mut Tape, luau: bool, per_256: u32) -> (Block, bool) {
    if !t.bool(per_256) {
        return (block, false);
    }
    let n = if luau { CONTEXTS } else { 7 };
    (wrap_block_in(block, t.choose(n)), true)
}
