pub mod cfg;
pub mod progen;
pub mod c17gen;
