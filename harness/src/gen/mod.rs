pub mod cfg;
pub mod progen;
pub mod syngen;
pub mod c17gen;
