pub mod cfg;
pub mod progen;
pub mod syngen;
pub mod datagen;
pub mod fsgen;
pub mod scopegen;
pub mod c17gen;
pub mod bundlegen;
