pub mod cfg;
pub mod progen;
