pub mod cfg;
