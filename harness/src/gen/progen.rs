//! `progen` — generator of executable Lua 5.1 / Luau programs as reference ASTs.
//!
//! Scope- and kind-aware so that most programs run without error.  Every random decision is
//! read from the choice tape.  The generator labels what it produced in `GenStats`.

use crate::luasyn::ast::*;
use crate::luasyn::{parse, Mode};
use crate::tape::Tape;
use std::collections::BTreeMap;
use std::rc::Rc;

#[derive(Clone, Debug, PartialEq)]
pub enum Kind {
    Num,
    Str,
    Bool,
    /// hole-free sequence of numbers
    Seq,
    /// record with fixed fields
    Rec(Rc<Vec<(String, Kind)>>),
    Func(Rc<FuncSig>),
    /// table with the loud metatable of the prelude (`mkobj`)
    Obj,
    /// unknown / possibly nil: only passed around, compared, emitted
    Any,
}

#[derive(Clone, Debug, PartialEq)]
pub struct FuncSig {
    pub params: Vec<Kind>,
    pub vararg: bool,
    pub rets: Vec<Kind>,
    pub method: bool,
}

#[derive(Clone, Debug)]
struct Var {
    name: String,
    kind: Kind,
    assignable: bool,
}

#[derive(Clone, Debug, Default)]
pub struct Avoid {
    /// no call / vararg as right operand of and/or whose left operand is a constant, in a
    /// multi-value tail position (known finding: `return true and f()` widening)
    pub const_andor_multi_tail: bool,
    /// no `continue` inside `repeat` whose condition reads a body local
    pub continue_repeat_body_local: bool,
    /// consecutive locals: first declaration never has more values than names
    pub local_surplus_values: bool,
    /// no local named `_`
    pub underscore_local: bool,
    /// an object with an effectful __tostring is only interpolated as the last value of a string
    pub interp_tostring_order: bool,
}

#[derive(Clone, Copy, Debug, PartialEq, Eq)]
pub enum Focus {
    General,
    /// C16: runs of locals, local functions, methods, method calls, math.sqrt
    Refactor,
    /// C06: Luau constructs with side-effecting sub-expressions
    Lowering,
}

#[derive(Clone, Debug)]
pub struct GenOpts {
    pub luau: bool,
    pub types: bool,
    pub max_stmts: usize,
    pub max_depth: usize,
    pub focus: Focus,
    pub avoid: Avoid,
    /// allow library names (`math`, `string`, `assert`, ...) as names of locals
    pub shadow_libs: bool,
}

impl GenOpts {
    pub fn lua51() -> Self {
        GenOpts { luau: false, types: false, max_stmts: 14, max_depth: 4, focus: Focus::General, avoid: Avoid::default(), shadow_libs: true }
    }
    pub fn luau() -> Self {
        GenOpts { luau: true, types: true, ..Self::lua51() }
    }
}

pub type GenStats = BTreeMap<&'static str, u32>;

pub struct Program {
    pub block: Block,
    pub stats: GenStats,
}

const PRELUDE: &str = r#"
local mkobj
do
  local function id(v) if type(v) == "table" then return rawget(v, "tag") end return v end
  local mt = {}
  mt.__index = function(t, k) emit("index", id(t), k) return 7 end
  mt.__newindex = function(t, k, v) emit("newindex", id(t), k, v) end
  mt.__call = function(self, ...) emit("call", id(self), ...) return 3, 4 end
  mt.__add = function(a, b) emit("add", id(a), id(b)) return 11 end
  mt.__sub = function(a, b) emit("sub", id(a), id(b)) return 12 end
  mt.__mul = function(a, b) emit("mul", id(a), id(b)) return 13 end
  mt.__div = function(a, b) emit("div", id(a), id(b)) return 14 end
  mt.__mod = function(a, b) emit("mod", id(a), id(b)) return 15 end
  mt.__pow = function(a, b) emit("pow", id(a), id(b)) return 16 end
  mt.__unm = function(a) emit("unm", id(a)) return 17 end
  mt.__concat = function(a, b) emit("concat", id(a), id(b)) return "cat" end
  mt.__eq = function(a, b) emit("eq", id(a), id(b)) return true end
  mt.__lt = function(a, b) emit("lt", id(a), id(b)) return false end
  mt.__le = function(a, b) emit("le", id(a), id(b)) return true end
  mt.__tostring = function(a) emit("tostring", id(a)) return "obj" end
  mkobj = function(tag) return setmetatable({ tag = tag }, mt) end
end
"#;

pub fn prelude_block() -> Block {
    parse(PRELUDE, Mode::Lua51).expect("prelude parses").block
}

const SHORT_NAMES: [&str; 14] = ["a", "b", "c", "d", "e", "f", "g", "x", "y", "z", "n", "v", "w", "k"];
const LIB_NAMES: [&str; 10] = ["math", "string", "tostring", "assert", "debug", "select", "type", "unpack", "require", "self"];
const FIELD_NAMES: [&str; 8] = ["x", "y", "count", "name", "value", "next", "size", "flag"];

pub const NUM_POOL: [(&str, f64); 22] = [
    ("0", 0.0),
    ("1", 1.0),
    ("2", 2.0),
    ("3", 3.0),
    ("7", 7.0),
    ("10", 10.0),
    ("0.5", 0.5),
    ("1.5", 1.5),
    ("0.25", 0.25),
    ("100", 100.0),
    ("255", 255.0),
    ("1e3", 1000.0),
    ("0x10", 16.0),
    ("0xff", 255.0),
    ("1e15", 1e15),
    ("9007199254740993", 9007199254740992.0),
    ("1e100", 1e100),
    ("0.1", 0.1),
    ("1e-7", 1e-7),
    ("3.14159", 3.14159),
    ("12", 12.0),
    ("5", 5.0),
];

pub const STR_POOL: [&str; 27] = [
    // leading line breaks (a long bracket string drops exactly one)
    "\nUsage: tool <command>\n", "\n\nx", "\r\nq",
    "", "a", "abc", "hello world", "10", " 0x10 ", "1e2", "end", "nil", "it's", "say \"hi\"", "back\\slash", "tab\there", "line\nbreak", "]]", "x]=]y", "%d%s", "é",
    // long enough for the generators' long-bracket form (>= 60 bytes, or >= 20 bytes with >= 6 line feeds)
    "GET /index.html HTTP/1.1\r\nHost: example.org\r\nAccept: */*\r\n\r\n",
    "l1\nl2\nl3\nl4\nl5\nl6\nl7: the last line of several",
    "see [[Getting Started]] and a[b[1]] in a text that is long enough for brackets",
    "\u{1}7", "100%", "naïve café größe",
];

fn num(v: f64) -> Expr {
    Expr::Number { raw: String::new(), value: v }
}
fn num_raw(raw: &str, v: f64) -> Expr {
    Expr::Number { raw: raw.to_string(), value: v }
}
fn s(v: &str) -> Expr {
    Expr::Str { raw: String::new(), value: v.as_bytes().to_vec() }
}
fn nm(n: &str) -> Expr {
    Expr::Name(n.to_string())
}
fn call(f: Expr, args: Vec<Expr>) -> Expr {
    Expr::Call { f: Box::new(f), args, sugar: CallSugar::Parens }
}
fn callg(f: &str, args: Vec<Expr>) -> Expr {
    call(nm(f), args)
}
fn field(o: Expr, n: &str) -> Expr {
    Expr::Field { obj: Box::new(o), name: n.to_string() }
}
fn index(o: Expr, k: Expr) -> Expr {
    Expr::Index { obj: Box::new(o), key: Box::new(k) }
}
fn bin(op: BinOp, a: Expr, b: Expr) -> Expr {
    Expr::Binary(op, Box::new(a), Box::new(b))
}
fn un(op: UnOp, a: Expr) -> Expr {
    Expr::Unary(op, Box::new(a))
}
fn paren(a: Expr) -> Expr {
    Expr::Paren(Box::new(a))
}
fn mcall(o: Expr, name: &str, args: Vec<Expr>) -> Expr {
    Expr::MethodCall { obj: Box::new(o), name: name.to_string(), types: None, args, sugar: CallSugar::Parens }
}

struct FnCtx {
    sig: Rc<FuncSig>,
    /// index into `scopes` of the function's outermost scope
    base_scope: usize,
}

pub struct Gen<'a, 'b> {
    t: &'a mut Tape<'b>,
    o: GenOpts,
    scopes: Vec<Vec<Var>>,
    fns: Vec<FnCtx>,
    loop_depth: usize,
    /// inside a repeat body whose `until` will read a body local
    repeat_cond_reads_local: usize,
    budget: i32,
    counter: u32,
    need_prelude: bool,
    /// follow-up statements (calls of a function that was just defined)
    pending: Vec<Stmt>,
    pub stats: GenStats,
}

impl<'a, 'b> Gen<'a, 'b> {
    pub fn new(t: &'a mut Tape<'b>, o: GenOpts) -> Self {
        Gen { t, o, scopes: vec![vec![]], fns: vec![], loop_depth: 0, repeat_cond_reads_local: 0, budget: 0, counter: 0, need_prelude: false, pending: vec![], stats: GenStats::new() }
    }

    fn stat(&mut self, k: &'static str) {
        *self.stats.entry(k).or_insert(0) += 1;
    }

    // ------------------------------------------------------------------ symbols

    fn lookup(&self, name: &str) -> Option<&Var> {
        for sc in self.scopes.iter().rev() {
            for v in sc.iter().rev() {
                if v.name == name {
                    return Some(v);
                }
            }
        }
        None
    }

    fn global_ok(&self, name: &str) -> bool {
        self.lookup(name).is_none()
    }

    fn visible_vars(&self, pred: impl Fn(&Var) -> bool) -> Vec<Var> {
        let mut seen: Vec<&str> = vec![];
        let mut out = vec![];
        for sc in self.scopes.iter().rev() {
            for v in sc.iter().rev() {
                if seen.contains(&v.name.as_str()) {
                    continue;
                }
                seen.push(&v.name);
                if pred(v) {
                    out.push(v.clone());
                }
            }
        }
        out
    }

    fn pick_var(&mut self, pred: impl Fn(&Var) -> bool) -> Option<Var> {
        let vs = self.visible_vars(pred);
        if vs.is_empty() {
            None
        } else {
            let i = self.t.choose(vs.len());
            Some(vs[i].clone())
        }
    }

    fn declare(&mut self, name: &str, kind: Kind, assignable: bool) {
        if self.lookup(name).is_some() {
            self.stat("shadowing");
        }
        self.scopes.last_mut().unwrap().push(Var { name: name.to_string(), kind, assignable });
    }

    fn fresh_name(&mut self) -> String {
        // mostly short names (collisions / shadowing are wanted), sometimes risky ones
        let w = [10, if self.o.shadow_libs { 2 } else { 0 }, if self.o.avoid.underscore_local { 0 } else { 1 }, 3];
        match self.t.weighted(&w) {
            0 => SHORT_NAMES[self.t.choose(SHORT_NAMES.len())].to_string(),
            1 => {
                self.stat("lib_name_as_local");
                LIB_NAMES[self.t.choose(LIB_NAMES.len())].to_string()
            }
            2 => "_".to_string(),
            _ => {
                self.counter += 1;
                format!("v{}", self.counter)
            }
        }
    }

    // ------------------------------------------------------------------ expressions

    fn num_lit(&mut self) -> Expr {
        let small = self.t.bool(180);
        if small {
            let v = self.t.choose(6) as f64;
            return num(v);
        }
        let (raw, v) = NUM_POOL[self.t.choose(NUM_POOL.len())];
        if self.o.luau && self.t.bool(40) {
            return match self.t.choose(3) {
                0 => num_raw("0b101", 5.0),
                1 => num_raw("1_000", 1000.0),
                _ => num_raw("0xF_F", 255.0),
            };
        }
        num_raw(raw, v)
    }

    fn small_int(&mut self) -> Expr {
        let v = self.t.choose(5) as f64;
        num(v)
    }

    fn str_lit(&mut self) -> Expr {
        let i = self.t.choose(STR_POOL.len());
        s(STR_POOL[i])
    }

    /// an expression producing a number
    fn e_num(&mut self, d: usize) -> Expr {
        if d == 0 || self.budget <= 0 {
            return self.leaf(&Kind::Num);
        }
        self.budget -= 1;
        let luau = self.o.luau;
        match self.t.weighted(&[5, 4, 8, 2, 2, 2, 2, 2, if luau { 2 } else { 0 }, 2, 1]) {
            0 => self.leaf(&Kind::Num),
            1 => self.var_or_leaf(&Kind::Num),
            2 => {
                let ops = [BinOp::Add, BinOp::Sub, BinOp::Mul, BinOp::Div, BinOp::Mod, BinOp::Pow];
                let mut op = ops[self.t.weighted(&[5, 4, 3, 2, 1, 1])];
                if luau && self.t.bool(if self.o.focus == Focus::Lowering { 90 } else { 40 }) {
                    op = BinOp::IDiv;
                    self.stat("floor_div");
                }
                let a = self.e_num(d - 1);
                let b = if op == BinOp::IDiv {
                    match self.t.choose(7) {
                        0 => un(UnOp::Neg, num(2.0)),
                        1 => num(0.5),
                        2 => num(3.0),
                        3 => un(UnOp::Neg, num(0.25)),
                        4 => num(0.0),
                        5 => callg("probe1", vec![num(2.0)]),
                        _ => self.small_pos(),
                    }
                } else if matches!(op, BinOp::Mod | BinOp::Pow) {
                    self.small_pos()
                } else {
                    self.e_num(d - 1)
                };
                bin(op, a, b)
            }
            3 => un(UnOp::Neg, self.e_num(d - 1)),
            4 => {
                let e = self.e_str(d - 1);
                un(UnOp::Len, e)
            }
            5 => {
                if let Some(v) = self.pick_var(|v| v.kind == Kind::Seq) {
                    un(UnOp::Len, nm(&v.name))
                } else {
                    self.leaf(&Kind::Num)
                }
            }
            6 => self.call_returning(&Kind::Num, d),
            7 => {
                // math library on numbers
                if self.global_ok("math") {
                    let a = self.e_num(d - 1);
                    let f = ["floor", "abs", "max", "sqrt"][self.t.choose(4)];
                    if f == "sqrt" {
                        self.stat("math_sqrt");
                    }
                    let mut args = vec![if f == "sqrt" { callg_abs(a) } else { a }];
                    if f == "max" {
                        args.push(self.e_num(d - 1));
                    }
                    call(field(nm("math"), f), args)
                } else {
                    self.leaf(&Kind::Num)
                }
            }
            8 => {
                // Luau if-expression
                self.stat("if_expr");
                let c = self.e_bool(d - 1);
                let a = self.e_num(d - 1);
                let b = self.e_num(d - 1);
                Expr::IfExpr { clauses: vec![(c, a)], else_: Box::new(b) }
            }
            9 => {
                // object arithmetic through metamethods (returns numbers)
                if let Some(v) = self.pick_var(|v| v.kind == Kind::Obj) {
                    self.stat("meta_arith");
                    let ops = [BinOp::Add, BinOp::Sub, BinOp::Mul, BinOp::Div, BinOp::Mod, BinOp::Pow];
                    let op = ops[self.t.choose(ops.len())];
                    let other = self.e_num(d - 1);
                    match self.t.choose(3) {
                        0 => bin(op, nm(&v.name), other),
                        1 => bin(op, other, nm(&v.name)),
                        _ => un(UnOp::Neg, nm(&v.name)),
                    }
                } else {
                    self.leaf(&Kind::Num)
                }
            }
            _ => paren(self.e_num(d - 1)),
        }
    }

    fn small_pos(&mut self) -> Expr {
        let v = 1 + self.t.choose(4);
        num(v as f64)
    }

    fn e_str(&mut self, d: usize) -> Expr {
        if d == 0 || self.budget <= 0 {
            return self.leaf(&Kind::Str);
        }
        self.budget -= 1;
        let luau = self.o.luau;
        match self.t.weighted(&[5, 4, 5, 2, 2, if luau { 3 } else { 0 }, 1, 1]) {
            0 => self.leaf(&Kind::Str),
            1 => self.var_or_leaf(&Kind::Str),
            2 => {
                let a = self.e_str(d - 1);
                let b = if self.t.bool(40) { self.small_int() } else { self.e_str(d - 1) };
                bin(BinOp::Concat, a, b)
            }
            3 => self.call_returning(&Kind::Str, d),
            4 => {
                if self.global_ok("string") && self.t.bool(128) {
                    let a = self.e_str(d - 1);
                    match self.t.choose(3) {
                        0 => call(field(nm("string"), "upper"), vec![a]),
                        1 => call(field(nm("string"), "rep"), vec![a, self.small_int()]),
                        _ => call(field(nm("string"), "sub"), vec![a, self.small_pos(), self.small_pos()]),
                    }
                } else if self.global_ok("tostring") {
                    let a = self.small_int();
                    callg("tostring", vec![a])
                } else {
                    self.leaf(&Kind::Str)
                }
            }
            5 => {
                self.stat("interp_string");
                if self.t.bool(30) {
                    // no value at all: the text is a plain string (`%` must not be doubled)
                    self.stat("interp_without_values");
                    let lit = ["100%", "% done", "a", "%s %d", "{x}", "tab\there"][self.t.choose(6)];
                    return Expr::Interp(vec![InterpSeg::Str(lit.as_bytes().to_vec())]);
                }
                let n = 1 + self.t.choose(3);
                let mut segs = vec![];
                for i in 0..n {
                    if self.t.bool(150) {
                        let lit = ["a", " ", "%", "{x}", "`", "\\", "\n", "%s"][self.t.choose(8)];
                        segs.push(InterpSeg::Str(lit.as_bytes().to_vec()));
                    }
                    let e = match self.t.choose(5) {
                        0 => self.e_str(d - 1),
                        1 => self.small_int(),
                        2 => self.e_bool(d - 1),
                        3 => {
                            if self.o.avoid.interp_tostring_order && i + 1 != n {
                                self.stat("avoided_interp_tostring_order");
                                Expr::Nil
                            } else if let Some(v) = self.pick_var(|v| v.kind == Kind::Obj) {
                                self.stat("interp_object");
                                nm(&v.name)
                            } else {
                                Expr::Nil
                            }
                        }
                        _ => callg("probe1", vec![self.str_lit()]),
                    };
                    segs.push(InterpSeg::Expr(e));
                    if i + 1 == n && self.t.bool(100) {
                        segs.push(InterpSeg::Str(b"!".to_vec()));
                    }
                }
                Expr::Interp(segs)
            }
            6 => {
                if let Some(v) = self.pick_var(|v| v.kind == Kind::Obj) {
                    self.stat("meta_concat");
                    let other = self.e_str(d - 1);
                    if self.t.bool(128) {
                        bin(BinOp::Concat, nm(&v.name), other)
                    } else {
                        bin(BinOp::Concat, other, nm(&v.name))
                    }
                } else {
                    self.leaf(&Kind::Str)
                }
            }
            _ => paren(self.e_str(d - 1)),
        }
    }

    fn e_bool(&mut self, d: usize) -> Expr {
        if d == 0 || self.budget <= 0 {
            return self.leaf(&Kind::Bool);
        }
        self.budget -= 1;
        match self.t.weighted(&[3, 3, 6, 2, 3, 3, 1, 1]) {
            0 => self.leaf(&Kind::Bool),
            1 => self.var_or_leaf(&Kind::Bool),
            2 => {
                let ops = [BinOp::Lt, BinOp::Le, BinOp::Gt, BinOp::Ge, BinOp::Eq, BinOp::Ne];
                let op = ops[self.t.choose(6)];
                let a = self.e_num(d - 1);
                let b = self.e_num(d - 1);
                bin(op, a, b)
            }
            3 => {
                let op = [BinOp::Lt, BinOp::Le, BinOp::Eq, BinOp::Ne][self.t.choose(4)];
                let a = self.e_str(d - 1);
                let b = self.e_str(d - 1);
                bin(op, a, b)
            }
            4 => un(UnOp::Not, self.e_any(d - 1)),
            5 => {
                let op = if self.t.bool(128) { BinOp::And } else { BinOp::Or };
                let a = self.e_bool(d - 1);
                let b = self.e_bool(d - 1);
                bin(op, a, b)
            }
            6 => {
                if let Some(v) = self.pick_var(|v| v.kind == Kind::Obj) {
                    self.stat("meta_compare");
                    let w = self.pick_var(|v| v.kind == Kind::Obj).unwrap_or(v.clone());
                    let op = [BinOp::Lt, BinOp::Le, BinOp::Eq, BinOp::Ne, BinOp::Gt][self.t.choose(5)];
                    bin(op, nm(&v.name), nm(&w.name))
                } else {
                    self.leaf(&Kind::Bool)
                }
            }
            _ => {
                let a = self.e_any(d - 1);
                let b = self.e_any(d - 1);
                bin(if self.t.bool(128) { BinOp::Eq } else { BinOp::Ne }, a, b)
            }
        }
    }

    /// any single value, including nil and and/or chains with constant operands
    fn e_any(&mut self, d: usize) -> Expr {
        if d == 0 || self.budget <= 0 {
            return match self.t.choose(5) {
                0 => Expr::Nil,
                1 => self.leaf(&Kind::Num),
                2 => self.leaf(&Kind::Str),
                3 => self.leaf(&Kind::Bool),
                _ => self.any_var_or(Expr::Nil),
            };
        }
        self.budget -= 1;
        if self.o.luau && self.t.bool(14) {
            // a type cast changes nothing at run time
            self.stat("type_cast");
            let inner = self.e_any(d - 1);
            let ty = self.ty_of(&Kind::Any);
            return paren(Expr::Cast { expr: Box::new(if inner.is_multi() { paren(inner) } else { inner }), ty: Box::new(ty) });
        }
        match self.t.weighted(&[3, 3, 3, 4, 4, 2, 2, 2, 2]) {
            0 => self.e_num(d - 1),
            1 => self.e_str(d - 1),
            2 => self.e_bool(d - 1),
            3 => {
                // and / or value semantics, constants on the left are what compute_expression folds
                self.stat("and_or_value");
                let op = if self.t.bool(128) { BinOp::And } else { BinOp::Or };
                let a = match self.t.choose(6) {
                    0 => Expr::True,
                    1 => Expr::False,
                    2 => Expr::Nil,
                    3 => self.small_int(),
                    4 => self.str_lit(),
                    _ => self.e_any(d - 1),
                };
                let mut b = self.e_any(d - 1);
                if self.o.avoid.const_andor_multi_tail && b.is_multi() && crate::visit::truthiness_may_be_static(&a) {
                    // known finding: keep the call from widening if this lands in a tail position
                    self.stat("avoided_const_andor_multi_tail");
                    b = paren(b);
                }
                bin(op, a, b)
            }
            4 => self.any_var_or(Expr::Nil),
            5 => callg("probe1", vec![self.e_any(d - 1)]),
            6 => paren(self.multi(d - 1)),
            7 => {
                // field / index reads
                if let Some(v) = self.pick_var(|v| matches!(v.kind, Kind::Rec(_) | Kind::Obj | Kind::Seq)) {
                    match &v.kind {
                        Kind::Rec(fields) => {
                            let f = if !fields.is_empty() && self.t.bool(200) { fields[self.t.choose(fields.len())].0.clone() } else { "missing".to_string() };
                            if self.t.bool(128) {
                                field(nm(&v.name), &f)
                            } else {
                                self.stat("index_string_key");
                                index(nm(&v.name), s(&f))
                            }
                        }
                        Kind::Obj => {
                            self.stat("meta_index");
                            field(nm(&v.name), FIELD_NAMES[self.t.choose(FIELD_NAMES.len())])
                        }
                        _ => index(nm(&v.name), self.small_pos()),
                    }
                } else {
                    Expr::Nil
                }
            }
            _ => {
                if self.o.luau && self.t.bool(150) {
                    // if-expression with falsy / nil results, elseif chains, calls as branches
                    self.stat("if_expr");
                    let n = 1 + self.t.weighted(&[6, 2, 2, 1]);
                    let mut clauses = vec![];
                    for _ in 0..n {
                        let c = self.cond(d - 1);
                        let v = self.if_branch(d - 1);
                        clauses.push((c, v));
                    }
                    let else_ = self.if_branch(d - 1);
                    Expr::IfExpr { clauses, else_: Box::new(else_) }
                } else {
                    self.e_table(d - 1).0
                }
            }
        }
    }

    fn if_branch(&mut self, d: usize) -> Expr {
        match self.t.choose(6) {
            0 => Expr::Nil,
            1 => Expr::False,
            2 => self.multi(d),
            _ => self.e_any(d),
        }
    }

    fn any_var_or(&mut self, dflt: Expr) -> Expr {
        match self.pick_var(|_| true) {
            Some(v) => nm(&v.name),
            None => dflt,
        }
    }

    fn leaf(&mut self, k: &Kind) -> Expr {
        match k {
            Kind::Num => self.num_lit(),
            Kind::Str => self.str_lit(),
            Kind::Bool => {
                if self.t.bool(128) {
                    Expr::True
                } else {
                    Expr::False
                }
            }
            _ => Expr::Nil,
        }
    }

    fn var_or_leaf(&mut self, k: &Kind) -> Expr {
        let kk = k.clone();
        match self.pick_var(move |v| v.kind == kk) {
            Some(v) => nm(&v.name),
            None => self.leaf(k),
        }
    }

    /// an expression of the given kind
    fn e_kind(&mut self, k: &Kind, d: usize) -> Expr {
        match k {
            Kind::Num => self.e_num(d),
            Kind::Str => self.e_str(d),
            Kind::Bool => self.e_bool(d),
            Kind::Any => self.e_any(d),
            Kind::Seq => {
                let kk = k.clone();
                if let (true, Some(v)) = (self.t.bool(100), self.pick_var(move |v| v.kind == kk)) {
                    nm(&v.name)
                } else {
                    let n = self.t.choose(4);
                    let mut items = vec![];
                    for _ in 0..n {
                        items.push(TableItem::Pos(self.e_num(d.saturating_sub(1))));
                    }
                    Expr::Table(items)
                }
            }
            Kind::Rec(fields) => {
                let kk = k.clone();
                if let (true, Some(v)) = (self.t.bool(100), self.pick_var(move |v| v.kind == kk)) {
                    nm(&v.name)
                } else {
                    let mut items = vec![];
                    for (f, fk) in fields.iter() {
                        let e = self.e_kind(fk, d.saturating_sub(1));
                        if self.t.bool(60) {
                            items.push(TableItem::Keyed(s(f), e));
                        } else {
                            items.push(TableItem::Named(f.clone(), e));
                        }
                    }
                    Expr::Table(items)
                }
            }
            Kind::Obj => {
                let kk = k.clone();
                if let (true, Some(v)) = (self.t.bool(150), self.pick_var(move |v| v.kind == kk)) {
                    nm(&v.name)
                } else if self.global_ok("mkobj") || matches!(self.lookup("mkobj").map(|v| &v.kind), Some(Kind::Func(_))) {
                    self.need_prelude = true;
                    self.counter += 1;
                    callg("mkobj", vec![num(self.counter as f64)])
                } else {
                    Expr::Table(vec![])
                }
            }
            Kind::Func(sig) => {
                let kk = k.clone();
                if let (true, Some(v)) = (self.t.bool(150), self.pick_var(move |v| v.kind == kk)) {
                    nm(&v.name)
                } else {
                    let body = self.func_body(sig.clone(), None);
                    Expr::Function { attrs: vec![], func: Box::new(body) }
                }
            }
        }
    }

    /// a table constructor with all three entry kinds; returns (expr, kind)
    fn e_table(&mut self, d: usize) -> (Expr, Kind) {
        self.stat("table_constructor");
        if self.t.bool(100) {
            let n = self.t.choose(4);
            let mut items = vec![];
            for _ in 0..n {
                items.push(TableItem::Pos(self.e_num(d)));
            }
            if n > 0 && self.t.bool(40) {
                // multi-value tail (numbers only so that the kind holds)
                items.push(TableItem::Pos(callg("probe", vec![self.e_num(d), self.e_num(d)])));
                self.stat("multi_in_table_tail");
            }
            (Expr::Table(items), Kind::Seq)
        } else {
            let n = 1 + self.t.choose(3);
            let mut fields: Vec<(String, Kind)> = vec![];
            let mut items = vec![];
            for _ in 0..n {
                let f = FIELD_NAMES[self.t.choose(FIELD_NAMES.len())].to_string();
                if fields.iter().any(|(x, _)| *x == f) {
                    continue;
                }
                let k = self.simple_kind();
                let e = self.e_kind(&k, d);
                match self.t.weighted(&[5, 2]) {
                    0 => items.push(TableItem::Named(f.clone(), e)),
                    _ => {
                        self.stat("index_string_key");
                        items.push(TableItem::Keyed(s(&f), e))
                    }
                }
                fields.push((f, k));
            }
            (Expr::Table(items), Kind::Rec(Rc::new(fields)))
        }
    }

    fn simple_kind(&mut self) -> Kind {
        match self.t.weighted(&[5, 3, 2]) {
            0 => Kind::Num,
            1 => Kind::Str,
            _ => Kind::Bool,
        }
    }

    /// a call to a visible function whose first result has kind `k` (or a probe wrapper)
    fn call_returning(&mut self, k: &Kind, d: usize) -> Expr {
        let kk = k.clone();
        let cand = self.pick_var(move |v| match &v.kind {
            Kind::Func(sig) => !sig.method && sig.rets.first() == Some(&kk),
            _ => false,
        });
        if let Some(v) = cand {
            if let Kind::Func(sig) = &v.kind {
                self.stat("call_user_function");
                let args = self.args_for(&sig.clone(), d.saturating_sub(1));
                return call(nm(&v.name), args);
            }
        }
        let inner = self.e_kind(k, d.saturating_sub(1));
        callg(if self.t.bool(128) { "probe1" } else { "probe" }, vec![inner])
    }

    fn args_for(&mut self, sig: &FuncSig, d: usize) -> Vec<Expr> {
        let mut args = vec![];
        for p in &sig.params {
            args.push(self.e_kind(p, d));
        }
        if sig.vararg {
            let n = self.t.choose(3);
            for _ in 0..n {
                args.push(self.e_any(d));
            }
        }
        args
    }

    /// an expression in a multi-value position (may yield 0, 1, 2.. values)
    fn multi(&mut self, d: usize) -> Expr {
        self.stat("multi_value_expr");
        let in_vararg = self.fns.last().map(|f| f.sig.vararg).unwrap_or(true);
        match self.t.weighted(&[3, 3, 2, 2, if in_vararg { 3 } else { 0 }, 2, if self.o.luau { 2 } else { 0 }]) {
            6 => {
                // a cast in parentheses still truncates to one value (`(f() :: any)`, `(... :: any)`)
                self.stat("parenthesised_cast_of_multi_value");
                let inner = if in_vararg && self.t.bool(100) { Expr::Vararg } else { callg("probe2", vec![self.e_any(d)]) };
                let ty = self.ty_of(&Kind::Any);
                paren(Expr::Cast { expr: Box::new(inner), ty: Box::new(ty) })
            }
            0 => callg("probe2", vec![self.e_any(d)]),
            1 => {
                let a = self.e_any(d);
                let b = self.e_any(d);
                callg("probe", vec![a, b])
            }
            2 => callg("probe0", vec![]),
            3 => {
                let cand = self.pick_var(|v| matches!(&v.kind, Kind::Func(sig) if !sig.method));
                if let Some(Var { name, kind: Kind::Func(sig), .. }) = cand {
                    let args = self.args_for(&sig, d);
                    call(nm(&name), args)
                } else {
                    callg("probe2", vec![self.e_any(d)])
                }
            }
            4 => {
                self.stat("vararg_use");
                Expr::Vararg
            }
            _ => {
                // and/or whose right operand is a call: truncation to one value matters
                let a = match self.t.choose(4) {
                    0 => Expr::True,
                    1 => Expr::False,
                    2 => Expr::Nil,
                    _ => self.e_bool(d),
                };
                let constant_left = matches!(a, Expr::True | Expr::False | Expr::Nil);
                if constant_left && self.o.avoid.const_andor_multi_tail {
                    self.stat("avoided_const_andor_multi_tail");
                    return callg("probe2", vec![self.e_any(d)]);
                }
                self.stat("andor_call_in_multi_position");
                let b = callg("probe2", vec![self.e_any(d)]);
                bin(if self.t.bool(128) { BinOp::And } else { BinOp::Or }, a, b)
            }
        }
    }

    /// expression list for a multi-value context (arguments, return, table tail...)
    fn expr_list(&mut self, n: usize, d: usize) -> Vec<Expr> {
        let mut v = vec![];
        for _ in 0..n {
            v.push(self.e_any(d));
        }
        if self.t.bool(70) {
            v.push(self.multi(d));
        }
        v
    }

    // ------------------------------------------------------------------ functions

    fn gen_sig(&mut self, method: bool) -> Rc<FuncSig> {
        let np = self.t.choose(4);
        let mut params = vec![];
        for _ in 0..np {
            params.push(match self.t.weighted(&[5, 2, 1, 2]) {
                0 => Kind::Num,
                1 => Kind::Str,
                2 => Kind::Bool,
                _ => Kind::Any,
            });
        }
        let nr = self.t.weighted(&[2, 6, 2]);
        let mut rets = vec![];
        for _ in 0..nr {
            rets.push(self.simple_kind());
        }
        Rc::new(FuncSig { params, vararg: self.t.bool(50), rets, method })
    }

    fn ty_of(&mut self, k: &Kind) -> Type {
        let base = match k {
            Kind::Num => "number",
            Kind::Str => "string",
            Kind::Bool => "boolean",
            _ => "any",
        };
        let named = Type::Name(TypeName { name: base.to_string(), params: None });
        match self.t.weighted(&[8, 2, 1, 1, 1]) {
            0 => named,
            1 => Type::Optional(Box::new(named)),
            2 => Type::Union { leading: false, types: vec![named, Type::Nil] },
            3 => Type::Paren(Box::new(named)),
            _ => Type::Union { leading: false, types: vec![named, Type::Str(b"lit".to_vec())] },
        }
    }

    fn func_body(&mut self, sig: Rc<FuncSig>, self_name: Option<(&str, Kind)>) -> FuncBody {
        self.stat("function_body");
        let base_scope = self.scopes.len();
        self.scopes.push(vec![]);
        if sig.method {
            self.declare("self", Kind::Any, true);
        }
        let mut params = vec![];
        let mut used: Vec<String> = vec![];
        for k in &sig.params {
            let mut name = self.fresh_name();
            if let Some((sn, _)) = &self_name {
                if self.t.bool(30) {
                    // a parameter named like the function itself
                    name = sn.to_string();
                    self.stat("param_named_like_function");
                }
            }
            if used.contains(&name) {
                self.counter += 1;
                name = format!("p{}", self.counter);
            }
            used.push(name.clone());
            let ty = if self.o.types && self.t.bool(90) { Some(self.ty_of(k)) } else { None };
            params.push(Binding { name: name.clone(), ty });
            self.declare(&name, k.clone(), true);
        }
        self.fns.push(FnCtx { sig: sig.clone(), base_scope });
        let saved_loop = std::mem::replace(&mut self.loop_depth, 0);
        let saved_rep = std::mem::replace(&mut self.repeat_cond_reads_local, 0);
        let saved_pending = std::mem::take(&mut self.pending);
        let deep = self.fns.len() >= 3;
        let n = if deep { 0 } else { 1 + self.t.choose(4) };
        let inner_d = if self.fns.len() >= 2 { 0 } else { 1 };
        let mut stmts = vec![];
        for _ in 0..n {
            if let Some(st) = self.stmt(inner_d) {
                let term = matches!(st, Stmt::Return(_));
                stmts.push(st);
                if term {
                    self.pending.clear();
                    break;
                }
                stmts.append(&mut self.pending);
            }
        }
        if !matches!(stmts.last(), Some(Stmt::Return(_))) {
            stmts.push(self.return_stmt(2));
        }
        self.loop_depth = saved_loop;
        self.repeat_cond_reads_local = saved_rep;
        self.pending = saved_pending;
        self.fns.pop();
        self.scopes.truncate(base_scope);
        let ret_ty = if self.o.types && self.t.bool(60) && sig.rets.len() == 1 { Some(Box::new(ReturnType::Type(self.ty_of(&sig.rets[0])))) } else { None };
        FuncBody { generics: None, params, vararg: sig.vararg, vararg_ty: None, ret_ty, body: Block::new(stmts) }
    }

    fn return_stmt(&mut self, d: usize) -> Stmt {
        match self.fns.last().map(|f| f.sig.clone()) {
            Some(sig) => {
                let mut v = vec![];
                for k in &sig.rets {
                    v.push(self.e_kind(k, d));
                }
                if !v.is_empty() && self.t.bool(25) {
                    // extra values after the declared ones are harmless for callers
                    v.push(self.multi(d));
                }
                Stmt::Return(v)
            }
            None => {
                let n = self.t.choose(3);
                Stmt::Return(self.expr_list(n, d))
            }
        }
    }

    // ------------------------------------------------------------------ statements

    fn block(&mut self, n: usize, d: usize) -> Block {
        self.scopes.push(vec![]);
        let mut stmts = vec![];
        for _ in 0..n {
            if let Some(st) = self.stmt(d) {
                let term = matches!(st, Stmt::Return(_) | Stmt::Break | Stmt::Continue);
                stmts.push(st);
                if term {
                    self.pending.clear();
                    break;
                }
                stmts.append(&mut self.pending);
            }
        }
        self.scopes.pop();
        Block::new(stmts)
    }

    fn emit_stmt(&mut self, d: usize) -> Stmt {
        self.stat("emit");
        let n = 1 + self.t.choose(3);
        let args = self.expr_list(n, d);
        Stmt::Call(callg("emit", args))
    }

    fn stmt(&mut self, d: usize) -> Option<Stmt> {
        self.budget = 14;
        let ed = self.o.max_depth.min(3);
        let nested_ok = d > 0;
        let in_loop = self.loop_depth > 0;
        let luau = self.o.luau;
        let refac = self.o.focus == Focus::Refactor;
        let lower = self.o.focus == Focus::Lowering;
        let w = [
            10,                                   // 0 local declaration
            6,                                    // 1 emit
            5,                                    // 2 assignment
            if nested_ok { 5 } else { 0 },        // 3 if
            if nested_ok { 3 } else { 0 },        // 4 while
            if nested_ok { 3 } else { 0 },        // 5 numeric for
            if nested_ok { 3 } else { 0 },        // 6 generic for
            if nested_ok { 2 } else { 0 },        // 7 repeat
            if nested_ok { 2 } else { 0 },        // 8 do
            if nested_ok { if refac { 8 } else { 4 } } else { 0 }, // 9 local function
            if nested_ok { 4 } else { 0 },        // 10 function statement on a table / global
            3,                                    // 11 call statement
            if in_loop { if lower { 7 } else { 3 } } else { 0 }, // 12 break / continue (guarded)
            if self.fns.is_empty() { 0 } else { 2 }, // 13 early return (guarded)
            if luau { if lower { 9 } else { 4 } } else { 0 }, // 14 compound assignment
            2,                                    // 15 object creation / metamethod statement
            if nested_ok { 2 } else { 0 },        // 16 pcall / error
            if refac { 6 } else { 2 },            // 17 method call statement
            if luau && self.o.types { 1 } else { 0 }, // 18 type declaration
            if nested_ok { 1 } else { 0 },        // 19 recursion template
            1,                                    // 20 tables with string keys that are not identifiers
            if refac { 2 } else { 1 },            // 21 a local table named like a library, with its own functions
        ];
        let choice = self.t.weighted(&w);
        Some(match choice {
            0 => self.local_stmt(ed),
            1 => self.emit_stmt(ed),
            2 => self.assign_stmt(ed)?,
            3 => {
                self.stat("if");
                let mut clauses = vec![];
                let n = 1 + self.t.weighted(&[6, 2, 1]);
                for _ in 0..n {
                    let c = self.cond(ed);
                    let nb = 1 + self.t.choose(3);
                    let b = self.block(nb, d - 1);
                    clauses.push((c, b));
                }
                let else_ = if self.t.bool(100) {
                    let nb = 1 + self.t.choose(2);
                    Some(self.block(nb, d - 1))
                } else {
                    None
                };
                Stmt::If { clauses, else_ }
            }
            4 => self.while_stmt(d),
            5 => {
                self.stat("numeric_for");
                let var = self.fresh_name();
                if self.t.bool(56) {
                    // the limit and the step read an OUTER local that the loop variable then shadows:
                    // the three header expressions belong to the enclosing scope
                    self.stat("numeric_for_header_reads_shadowed_outer");
                    let outer = [1.0, 2.0, 3.0][self.t.choose(3)];
                    let times = 2 + self.t.choose(4);
                    let limit = if self.t.bool(128) {
                        bin(BinOp::Mul, nm(&var), num(times as f64))
                    } else {
                        num((times * 2) as f64)
                    };
                    self.scopes.push(vec![]);
                    self.declare(&var, Kind::Num, false);
                    self.scopes.push(vec![]);
                    self.declare(&var, Kind::Num, true);
                    self.loop_depth += 1;
                    let nb = 1 + self.t.choose(3);
                    let body = self.block(nb, d - 1);
                    self.loop_depth -= 1;
                    self.scopes.pop();
                    self.scopes.pop();
                    return Some(Stmt::Do(Block::new(vec![
                        Stmt::Local { is_const: false, names: vec![Binding::new(var.clone())], values: vec![num(outer)] },
                        Stmt::NumFor { var: Binding::new(var.clone()), start: num(1.0), limit, step: Some(nm(&var)), body },
                    ])));
                }
                let (start, limit, step) = match self.t.choose(4) {
                    0 => (num(1.0), self.small_int(), None),
                    1 => (self.small_int(), num(0.0), Some(num(-1.0))),
                    2 => (num(1.0), num(2.0), Some(num(0.5))),
                    _ => (self.small_int(), self.small_int(), Some(num(1.0))),
                };
                self.scopes.push(vec![]);
                self.declare(&var, Kind::Num, true);
                self.loop_depth += 1;
                let nb = 1 + self.t.choose(3);
                let body = self.block(nb, d - 1);
                self.loop_depth -= 1;
                self.scopes.pop();
                Stmt::NumFor { var: Binding::new(var), start, limit, step, body }
            }
            6 => self.generic_for(d),
            7 => self.repeat_stmt(d),
            8 => {
                self.stat("do");
                let nb = self.t.choose(4);
                Stmt::Do(self.block(nb, d - 1))
            }
            9 => self.local_function(),
            10 => self.function_stmt()?,
            11 => self.call_stmt(ed),
            12 => {
                // guarded so that the rest of the loop body stays reachable
                let c = self.cond(ed);
                let brk = if luau && self.t.bool(128) {
                    if self.repeat_cond_reads_local > 0 && self.o.avoid.continue_repeat_body_local {
                        self.stat("avoided_continue_repeat_body_local");
                        Stmt::Break
                    } else {
                        self.stat("continue");
                        if self.repeat_cond_reads_local > 0 {
                            self.stat("continue_in_repeat_with_body_local_cond");
                        }
                        Stmt::Continue
                    }
                } else {
                    self.stat("break");
                    Stmt::Break
                };
                let mut stmts = vec![];
                if self.t.bool(128) {
                    stmts.push(self.emit_stmt(1));
                }
                stmts.push(brk);
                Stmt::If { clauses: vec![(c, Block::new(stmts))], else_: None }
            }
            13 => {
                self.stat("early_return");
                let c = self.cond(ed);
                let r = self.return_stmt(ed);
                if self.t.bool(60) {
                    Stmt::Do(Block::new(vec![Stmt::If { clauses: vec![(c, Block::new(vec![r]))], else_: None }]))
                } else {
                    Stmt::If { clauses: vec![(c, Block::new(vec![r]))], else_: None }
                }
            }
            14 => self.compound_stmt(ed)?,
            15 => {
                let name = self.fresh_name();
                let e = self.e_kind(&Kind::Obj, 1);
                self.declare(&name, Kind::Obj, true);
                self.stat("object_creation");
                Stmt::Local { is_const: false, names: vec![Binding::new(name)], values: vec![e] }
            }
            16 => {
                self.stat("pcall");
                // local ok = pcall(function() ... error(v, 0) end)
                let name = self.fresh_name();
                self.scopes.push(vec![]);
                self.fns.push(FnCtx { sig: Rc::new(FuncSig { params: vec![], vararg: false, rets: vec![], method: false }), base_scope: self.scopes.len() - 1 });
                let saved_loop = std::mem::replace(&mut self.loop_depth, 0);
                let mut body = vec![self.emit_stmt(1)];
                if self.t.bool(160) {
                    let v = match self.t.choose(3) {
                        0 => s("boom"),
                        1 => Expr::Table(vec![TableItem::Named("code".into(), num(1.0))]),
                        _ => Expr::Nil,
                    };
                    let mut args = vec![v];
                    args.push(num(0.0));
                    if self.global_ok("error") {
                        body.push(Stmt::Call(callg("error", args)));
                    }
                }
                self.loop_depth = saved_loop;
                self.fns.pop();
                self.scopes.pop();
                let f = Expr::Function { attrs: vec![], func: Box::new(FuncBody { generics: None, params: vec![], vararg: false, vararg_ty: None, ret_ty: None, body: Block::new(body) }) };
                self.declare(&name, Kind::Bool, true);
                Stmt::Local { is_const: false, names: vec![Binding::new(name)], values: vec![callg("pcall", vec![f])] }
            }
            17 => self.method_call_stmt(ed)?,
            20 => self.odd_key_stmt(),
            21 => self.shadowed_library_stmt(),
            18 => {
                self.stat("type_decl");
                self.counter += 1;
                let ty = self.ty_of(&Kind::Num);
                Stmt::TypeDecl { export: false, name: format!("T{}", self.counter), generics: None, ty }
            }
            _ => self.recursion_template(),
        })
    }

    fn cond(&mut self, d: usize) -> Expr {
        match self.t.weighted(&[6, 1, 1, 1, 2, 3, 2]) {
            5 => callg("probe1", vec![Expr::True]),
            6 => un(UnOp::Not, callg("probe1", vec![if self.t.bool(128) { Expr::False } else { Expr::Nil }])),
            0 => self.e_bool(d),
            1 => Expr::True,
            2 => Expr::False,
            3 => Expr::Nil,
            _ => self.e_any(d),
        }
    }

    fn local_stmt(&mut self, d: usize) -> Stmt {
        self.stat("local");
        if self.fns.last().map(|f| f.sig.vararg).unwrap_or(false) && self.t.bool(48) {
            // `local a, b = ...` directly followed by another local and a use of all of them: the bare
            // `...` supplies every variable of the first statement
            self.stat("local_vararg_supplies_several_then_local");
            let k = 2 + self.t.choose(2);
            let mut names = vec![];
            for _ in 0..k {
                self.counter += 1;
                names.push(format!("w{}", self.counter));
            }
            self.counter += 1;
            let next = format!("w{}", self.counter);
            let mut values = vec![];
            if k == 3 && self.t.bool(100) {
                values.push(self.small_int());
            }
            values.push(Expr::Vararg);
            for n in &names {
                self.declare(n, Kind::Any, true);
            }
            self.declare(&next, Kind::Num, true);
            let v = self.small_int();
            self.pending.push(Stmt::Local { is_const: false, names: vec![Binding::new(next.clone())], values: vec![v] });
            let mut args: Vec<Expr> = names.iter().map(|n| nm(n)).collect();
            args.push(nm(&next));
            self.pending.push(Stmt::Call(callg("emit", args)));
            return Stmt::Local { is_const: false, names: names.into_iter().map(Binding::new).collect(), values };
        }
        let n = self.t.weighted(&[8, 3, 1]) + 1;
        let mut kinds = vec![];
        let mut values = vec![];
        let mut names = vec![];
        for _ in 0..n {
            let k = match self.t.weighted(&[6, 4, 2, 2, 2, 4, 1]) {
                0 => Kind::Num,
                1 => Kind::Str,
                2 => Kind::Bool,
                3 => Kind::Any,
                4 => Kind::Seq,
                5 => Kind::Rec(Rc::new(vec![("x".into(), Kind::Num), ("name".into(), Kind::Str)])),
                _ => Kind::Func(self.gen_sig(false)),
            };
            kinds.push(k);
        }
        // values: same count, fewer (nil padding -> Any), more (surplus), or multi tail
        let shape = self.t.weighted(&[10, 2, 2, 2]);
        match shape {
            0 => {
                for k in &kinds {
                    values.push(self.e_kind(k, d));
                }
            }
            1 => {
                // fewer values: the rest is nil
                self.stat("local_fewer_values");
                let m = self.t.choose(n);
                for k in kinds.iter().take(m) {
                    values.push(self.e_kind(k, d));
                }
                for k in kinds.iter_mut().skip(m) {
                    *k = Kind::Any;
                }
            }
            2 => {
                if self.o.avoid.local_surplus_values {
                    self.stat("avoided_local_surplus_values");
                    for k in &kinds {
                        values.push(self.e_kind(k, d));
                    }
                } else {
                    self.stat("local_surplus_values");
                    for k in &kinds {
                        values.push(self.e_kind(k, d));
                    }
                    values.push(callg("probe1", vec![self.small_int()]));
                }
            }
            _ => {
                // multi-value tail provides the last variables
                self.stat("local_multi_tail");
                // sometimes the tail has to supply several variables (fewer values than names)
                let lead = if n >= 2 && self.t.bool(90) {
                    self.stat("local_multi_tail_supplies_several");
                    self.t.choose(n - 1)
                } else {
                    n - 1
                };
                for k in kinds.iter().take(lead) {
                    values.push(self.e_kind(k, d));
                }
                values.push(self.multi(d));
                for k in kinds.iter_mut().skip(lead) {
                    *k = Kind::Any;
                }
            }
        }
        for k in &kinds {
            let mut name = self.fresh_name();
            if names.iter().any(|b: &Binding| b.name == name) && !self.t.bool(60) {
                self.counter += 1;
                name = format!("u{}", self.counter);
            }
            let ty = if self.o.types && self.t.bool(70) { Some(self.ty_of(k)) } else { None };
            names.push(Binding { name, ty });
        }
        // a name declared twice in one statement: the later one wins, its kind is what is visible
        let is_const = self.o.luau && self.t.bool(25) && values.len() == names.len();
        if is_const {
            self.stat("const_local");
        }
        for (b, k) in names.iter().zip(kinds.iter()) {
            self.declare(&b.name, k.clone(), !is_const);
        }
        Stmt::Local { is_const, names, values }
    }

    fn assign_target(&mut self, d: usize) -> Option<(Expr, Kind)> {
        match self.t.weighted(&[6, 3, 2, 1]) {
            0 => {
                let v = self.pick_var(|v| v.assignable && matches!(v.kind, Kind::Num | Kind::Str | Kind::Bool | Kind::Any))?;
                Some((nm(&v.name), v.kind))
            }
            1 => {
                let v = self.pick_var(|v| matches!(v.kind, Kind::Rec(_)))?;
                if let Kind::Rec(fields) = &v.kind {
                    if fields.is_empty() {
                        return None;
                    }
                    let (f, k) = fields[self.t.choose(fields.len())].clone();
                    let target = if self.t.bool(80) {
                        self.stat("index_string_key");
                        index(nm(&v.name), s(&f))
                    } else {
                        field(nm(&v.name), &f)
                    };
                    return Some((target, k));
                }
                None
            }
            2 => {
                let v = self.pick_var(|v| v.kind == Kind::Obj)?;
                self.stat("meta_newindex");
                let _ = d;
                Some((field(nm(&v.name), FIELD_NAMES[self.t.choose(FIELD_NAMES.len())]), Kind::Any))
            }
            _ => {
                // global variable (named so that it never collides with library globals)
                let n = format!("G{}", self.t.choose(3));
                Some((nm(&n), Kind::Any))
            }
        }
    }

    fn assign_stmt(&mut self, d: usize) -> Option<Stmt> {
        self.stat("assign");
        let n = 1 + self.t.weighted(&[8, 2]);
        let mut targets: Vec<Expr> = vec![];
        let mut values = vec![];
        for _ in 0..n {
            let (t, k) = self.assign_target(d)?;
            // never alias two targets in one statement
            if targets.iter().any(|x| *x == t) {
                continue;
            }
            targets.push(t);
            values.push(self.e_kind(&k, d));
        }
        if targets.len() > 1 {
            self.stat("multiple_assignment");
        }
        Some(Stmt::Assign { targets, values })
    }

    fn compound_stmt(&mut self, d: usize) -> Option<Stmt> {
        self.stat("compound_assign");
        let (target, op, value) = match self.t.weighted(&[4, 3, 3, 2, 2]) {
            4 => {
                // the key reads a field / applies an operator on an object whose metamethods are
                // observable: no call in sight, but the key must still be evaluated exactly once
                let v = self.pick_var(|v| v.kind == Kind::Obj)?;
                self.stat("compound_key_with_observable_read");
                self.counter += 1;
                let h = format!("h{}", self.counter);
                let o = nm(&v.name);
                let (key, slot) = match self.t.choose(6) {
                    0 => (field(o, "kind"), 7.0),
                    1 => (index(o, num(1.0)), 7.0),
                    2 => (paren(field(o, "kind")), 7.0),
                    3 => (Expr::Unary(UnOp::Neg, Box::new(o)), 17.0),
                    4 => (bin(BinOp::Add, o, num(1.0)), 11.0),
                    _ => (bin(BinOp::Concat, o, s("x")), -1.0),
                };
                let init = if slot < 0.0 {
                    Expr::Table(vec![TableItem::Named("cat".into(), num(1.0))])
                } else {
                    Expr::Table(vec![TableItem::Keyed(num(slot), num(1.0))])
                };
                let read = if slot < 0.0 { field(nm(&h), "cat") } else { index(nm(&h), num(slot)) };
                let op = [BinOp::Add, BinOp::Sub, BinOp::Mul][self.t.choose(3)];
                let value = self.e_num(d);
                return Some(Stmt::Do(Block::new(vec![
                    Stmt::Local { is_const: false, names: vec![Binding::new(h.clone())], values: vec![init] },
                    Stmt::CompoundAssign { target: index(nm(&h), key), op, value },
                    Stmt::Call(callg("emit", vec![read])),
                ])));
            }
            0 => {
                let v = self.pick_var(|v| v.assignable && v.kind == Kind::Num)?;
                let op = [BinOp::Add, BinOp::Sub, BinOp::Mul, BinOp::Div, BinOp::IDiv, BinOp::Mod, BinOp::Pow][self.t.choose(7)];
                let val = if matches!(op, BinOp::IDiv | BinOp::Mod | BinOp::Pow) { self.small_pos() } else { self.e_num(d) };
                (nm(&v.name), op, val)
            }
            1 => {
                let v = self.pick_var(|v| v.assignable && v.kind == Kind::Str)?;
                (nm(&v.name), BinOp::Concat, self.e_str(d))
            }
            2 => {
                // field / index target whose prefix and key have side effects
                let v = self.pick_var(|v| matches!(&v.kind, Kind::Rec(f) if f.iter().any(|(_, k)| *k == Kind::Num)))?;
                if let Kind::Rec(fields) = &v.kind {
                    let nums: Vec<&(String, Kind)> = fields.iter().filter(|(_, k)| *k == Kind::Num).collect();
                    let f = nums[self.t.choose(nums.len())].0.clone();
                    self.stat("compound_on_side_effect_prefix");
                    // longer prefix chains go through a holder local: `local h = {v}  h[probe1(1)].f += e`
                    let mut holder: Option<(String, Expr)> = None;
                    let prefix = match self.t.choose(6) {
                        0 => nm(&v.name),
                        1 => callg("probe1", vec![nm(&v.name)]),
                        2 => paren(callg("probe", vec![nm(&v.name), num(1.0)])),
                        3 => {
                            self.counter += 1;
                            let h = format!("h{}", self.counter);
                            holder = Some((h.clone(), Expr::Table(vec![TableItem::Pos(nm(&v.name))])));
                            index(nm(&h), callg("probe1", vec![num(1.0)]))
                        }
                        4 => {
                            self.counter += 1;
                            let h = format!("h{}", self.counter);
                            holder = Some((h.clone(), Expr::Table(vec![TableItem::Named("r".into(), nm(&v.name))])));
                            if self.t.bool(128) { field(nm(&h), "r") } else { index(nm(&h), callg("probe1", vec![s("r")])) }
                        }
                        _ => {
                            self.counter += 1;
                            let h = format!("h{}", self.counter);
                            holder = Some((h.clone(), Expr::Table(vec![TableItem::Pos(Expr::Table(vec![TableItem::Pos(nm(&v.name))]))])));
                            index(index(nm(&h), callg("probe1", vec![num(1.0)])), callg("probe2", vec![num(1.0)]))
                        }
                    };
                    let target = if self.t.bool(128) {
                        let key = callg("probe1", vec![s(&f)]);
                        // the key spelled as an interpolated string, a cast or in parentheses
                        let key = match self.t.choose(if self.o.luau { 5 } else { 2 }) {
                            0 => key,
                            1 => paren(key),
                            2 => {
                                self.stat("compound_interpolated_key");
                                Expr::Interp(vec![InterpSeg::Expr(key)])
                            }
                            3 => {
                                self.stat("compound_interpolated_key");
                                let (a, b) = f.split_at(f.len() / 2);
                                Expr::Interp(vec![InterpSeg::Str(a.as_bytes().to_vec()), InterpSeg::Expr(callg("probe1", vec![s(b)]))])
                            }
                            _ => {
                                let ty = self.ty_of(&Kind::Str);
                                paren(Expr::Cast { expr: Box::new(key), ty: Box::new(ty) })
                            }
                        };
                        index(prefix, key)
                    } else {
                        field(prefix, &f)
                    };
                    let op = [BinOp::Add, BinOp::Sub, BinOp::Mul][self.t.choose(3)];
                    let value = self.e_num(d);
                    if let Some((h, init)) = holder {
                        self.stat("compound_on_prefix_chain");
                        return Some(Stmt::Do(Block::new(vec![
                            Stmt::Local { is_const: false, names: vec![Binding::new(h)], values: vec![init] },
                            Stmt::CompoundAssign { target, op, value },
                        ])));
                    }
                    (target, op, value)
                } else {
                    return None;
                }
            }
            _ => {
                let v = self.pick_var(|v| v.kind == Kind::Obj)?;
                self.stat("compound_on_object");
                (field(nm(&v.name), "count"), BinOp::Add, self.small_int())
            }
        };
        Some(Stmt::CompoundAssign { target, op, value })
    }

    fn while_stmt(&mut self, d: usize) -> Stmt {
        self.stat("while");
        // local i = 0; while i < K do i = i + 1 ... end   (as a `do` block to scope the counter)
        self.counter += 1;
        let i = format!("i{}", self.counter);
        let k = 1 + self.t.choose(3);
        self.scopes.push(vec![]);
        self.declare(&i, Kind::Num, false);
        let cond = match self.t.choose(4) {
            0 => Expr::False,
            _ => bin(BinOp::Lt, nm(&i), num(k as f64)),
        };
        self.loop_depth += 1;
        let nb = 1 + self.t.choose(3);
        let mut body = self.block(nb, d - 1);
        self.loop_depth -= 1;
        body.stmts.insert(0, Stmt::Assign { targets: vec![nm(&i)], values: vec![bin(BinOp::Add, nm(&i), num(1.0))] });
        self.scopes.pop();
        Stmt::Do(Block::new(vec![
            Stmt::Local { is_const: false, names: vec![Binding::new(i.clone())], values: vec![num(0.0)] },
            Stmt::While { cond, body },
        ]))
    }

    fn repeat_stmt(&mut self, d: usize) -> Stmt {
        self.stat("repeat");
        self.counter += 1;
        let i = format!("r{}", self.counter);
        let k = 1 + self.t.choose(3);
        self.scopes.push(vec![]);
        self.declare(&i, Kind::Num, false);
        let reads_local = self.t.bool(128);
        self.loop_depth += 1;
        self.scopes.push(vec![]);
        if reads_local {
            self.repeat_cond_reads_local += 1;
        }
        let mut stmts = vec![Stmt::Assign { targets: vec![nm(&i)], values: vec![bin(BinOp::Add, nm(&i), num(1.0))] }];
        let done = format!("done{}", self.counter);
        if reads_local {
            self.stat("repeat_cond_reads_body_local");
            stmts.push(Stmt::Local { is_const: false, names: vec![Binding::new(done.clone())], values: vec![bin(BinOp::Ge, nm(&i), num(k as f64))] });
            self.declare(&done, Kind::Bool, false);
        }
        let nb = 1 + self.t.choose(3);
        for _ in 0..nb {
            if let Some(st) = self.stmt(d - 1) {
                let term = matches!(st, Stmt::Return(_) | Stmt::Break | Stmt::Continue);
                stmts.push(st);
                if term {
                    self.pending.clear();
                    break;
                }
                stmts.append(&mut self.pending);
            }
        }
        if reads_local {
            self.repeat_cond_reads_local -= 1;
        }
        self.scopes.pop();
        self.loop_depth -= 1;
        self.scopes.pop();
        let cond = if reads_local { nm(&done) } else { bin(BinOp::Ge, nm(&i), num(k as f64)) };
        // a body-level return/break as last statement would make `until` see an undeclared local only
        // syntactically; semantics are fine
        Stmt::Do(Block::new(vec![
            Stmt::Local { is_const: false, names: vec![Binding::new(i)], values: vec![num(0.0)] },
            Stmt::Repeat { body: Block::new(stmts), cond },
        ]))
    }

    fn generic_for(&mut self, d: usize) -> Stmt {
        self.stat("generic_for");
        let seq = self.e_kind(&Kind::Seq, 1);
        let kname = self.fresh_name();
        let mut vname = self.fresh_name();
        if vname == kname {
            vname = format!("{}2", vname);
        }
        let use_pairs = self.t.bool(90);
        let bare = self.o.luau && self.t.bool(40);
        let exprs = if bare {
            self.stat("generalized_iteration");
            vec![seq]
        } else if use_pairs && self.global_ok("pairs") {
            vec![callg("pairs", vec![seq])]
        } else {
            vec![callg("ipairs", vec![seq])]
        };
        self.scopes.push(vec![]);
        self.declare(&kname, Kind::Num, true);
        self.declare(&vname, Kind::Num, true);
        self.loop_depth += 1;
        let nb = 1 + self.t.choose(3);
        let body = self.block(nb, d - 1);
        self.loop_depth -= 1;
        self.scopes.pop();
        Stmt::GenFor { vars: vec![Binding::new(kname), Binding::new(vname)], exprs, body }
    }

    fn local_function(&mut self) -> Stmt {
        self.stat("local_function");
        let name = self.fresh_name();
        let sig = self.gen_sig(false);
        // `local function f` : f is visible in its own body
        let kind = Kind::Func(sig.clone());
        let as_assign = self.t.bool(60);
        if as_assign {
            // local f = function ... end : NOT visible in its own body
            let body = self.func_body(sig.clone(), None);
            self.declare(&name, kind, true);
            self.queue_calls(&name, &sig);
            return Stmt::Local { is_const: false, names: vec![Binding::new(name)], values: vec![Expr::Function { attrs: vec![], func: Box::new(body) }] };
        }
        // visible in its own body, but random bodies never call it (unbounded recursion)
        self.declare(&name, Kind::Any, false);
        let n2 = name.clone();
        let sig2 = sig.clone();
        let body = self.func_body(sig, Some((&n2, kind.clone())));
        self.declare(&name, kind, true);
        self.queue_calls(&name, &sig2);
        let is_const = self.o.luau && self.t.bool(20);
        Stmt::LocalFunction { attrs: vec![], is_const, name, func: body }
    }

    fn queue_calls(&mut self, name: &str, sig: &Rc<FuncSig>) {
        let n = self.t.weighted(&[2, 6, 2]);
        for _ in 0..n {
            let args = self.args_for(sig, 1);
            let c = call(nm(name), args);
            let st = match self.t.choose(3) {
                0 => Stmt::Call(c),
                _ => Stmt::Call(callg("emit", vec![c])),
            };
            self.pending.push(st);
        }
    }

    fn function_stmt(&mut self) -> Option<Stmt> {
        // function t.name(...) / function t:name(...) on a record table, or a global function
        if let (true, Some(v)) = (self.t.bool(180), self.pick_var(|v| matches!(v.kind, Kind::Rec(_)))) {
            let method = self.t.bool(128);
            self.stat(if method { "method_definition" } else { "field_function_definition" });
            let sig = self.gen_sig(method);
            let body = self.func_body(sig.clone(), None);
            self.counter += 1;
            let fname = format!("m{}", self.counter);
            let def = Stmt::Function {
                attrs: vec![],
                name: FuncName { base: v.name.clone(), fields: vec![], method: if method { Some(fname.clone()) } else { None } }.with_field(if method { None } else { Some(fname.clone()) }),
                func: body,
            };
            // define, then call it (so that the definition is executed code)
            let args = self.args_for(&sig, 1);
            let c = if method { mcall(nm(&v.name), &fname, args) } else { call(field(nm(&v.name), &fname), args) };
            return Some(Stmt::Do(Block::new(vec![def, Stmt::Call(callg("emit", vec![c]))])));
        }
        self.stat("global_function_definition");
        self.counter += 1;
        let gname = format!("GF{}", self.counter);
        let sig = self.gen_sig(false);
        let body = self.func_body(sig.clone(), None);
        self.queue_calls(&gname, &sig);
        Some(Stmt::Function { attrs: vec![], name: FuncName { base: gname, fields: vec![], method: None }, func: body })
    }

    fn call_stmt(&mut self, d: usize) -> Stmt {
        self.stat("call_stmt");
        let cand = self.pick_var(|v| matches!(&v.kind, Kind::Func(sig) if !sig.method));
        if let (true, Some(Var { name, kind: Kind::Func(sig), .. })) = (self.t.bool(200), cand) {
            self.stat("call_user_function");
            let args = self.args_for(&sig, d);
            return Stmt::Call(call(nm(&name), args));
        }
        if let (true, Some(v)) = (self.t.bool(60), self.pick_var(|v| v.kind == Kind::Obj)) {
            self.stat("meta_call");
            let n = self.t.choose(3);
            let args = self.expr_list(n, d);
            return Stmt::Call(call(nm(&v.name), args));
        }
        let n = self.t.choose(3);
        let args = self.expr_list(n, d);
        Stmt::Call(callg(["probe", "probe0", "probe2", "print"][self.t.choose(4)], args))
    }

    /// `local math = { sqrt = <observable function> }` used in statement, expression and operand
    /// positions: rules that know the library (`math.sqrt(x)` => `x ^ 0.5`, `math.floor`) must see the local
    fn shadowed_library_stmt(&mut self) -> Stmt {
        self.stat("shadowed_library_table");
        let (lib, f) = [("math", "sqrt"), ("math", "floor"), ("string", "format"), ("math", "sqrt")][self.t.choose(4)];
        let body = parse(&format!("return function(...) emit(\"own {}.{}\", ...) return 100 end", lib, f), Mode::Lua51).expect("template").block;
        let func = match &body.stmts[0] {
            Stmt::Return(v) => v[0].clone(),
            _ => Expr::Nil,
        };
        let a = self.small_pos();
        let b = self.small_pos();
        let c = self.small_pos();
        Stmt::Do(Block::new(vec![
            Stmt::Local { is_const: false, names: vec![Binding::new(lib.to_string())], values: vec![Expr::Table(vec![TableItem::Named(f.into(), func)])] },
            Stmt::Call(callg("emit", vec![call(field(nm(lib), f), vec![a])])),
            Stmt::Local { is_const: false, names: vec![Binding::new("r".to_string())], values: vec![bin(BinOp::Add, call(field(nm(lib), f), vec![b]), num(1.0))] },
            Stmt::Call(call(field(nm(lib), f), vec![c])),
            Stmt::Call(callg("emit", vec![nm("r")])),
        ]))
    }

    /// tables keyed by strings that are not identifiers (non-ASCII letters, keywords, spaces, digits first):
    /// `convert_index_to_field` must leave them in brackets
    fn odd_key_stmt(&mut self) -> Stmt {
        self.stat("odd_string_keys");
        self.counter += 1;
        let name = format!("u{}", self.counter);
        let pool = ["\u{e9}", "gr\u{f6}\u{df}e", "\u{540d}\u{524d}", "end", "a b", "1st", "", "a-b", "\u{3b1}1"];
        let k1 = pool[self.t.choose(pool.len())];
        let k2 = pool[self.t.choose(pool.len())];
        let ctor = Expr::Table(vec![TableItem::Keyed(s(k1), num(1.0)), TableItem::Keyed(s("ok"), num(2.0))]);
        Stmt::Do(Block::new(vec![
            Stmt::Local { is_const: false, names: vec![Binding::new(name.clone())], values: vec![ctor] },
            Stmt::Assign { targets: vec![index(nm(&name), s(k2))], values: vec![num(3.0)] },
            Stmt::Call(callg("emit", vec![index(nm(&name), s(k1)), index(nm(&name), s(k2)), index(nm(&name), s("ok"))])),
        ]))
    }

    fn method_call_stmt(&mut self, d: usize) -> Option<Stmt> {
        self.stat("method_call");
        match self.t.weighted(&[4, 3, 2]) {
            0 => {
                // string methods through `:` on identifiers, literals and parenthesised receivers
                let recv = match self.t.choose(3) {
                    0 => paren(self.e_str(1)),
                    1 => paren(self.str_lit()),
                    _ => {
                        let v = self.pick_var(|v| v.kind == Kind::Str)?;
                        nm(&v.name)
                    }
                };
                let e = match self.t.choose(3) {
                    0 => mcall(recv, "upper", vec![]),
                    1 => mcall(recv, "rep", vec![self.small_int()]),
                    _ => mcall(recv, "len", vec![]),
                };
                Some(Stmt::Call(callg("emit", vec![e])))
            }
            1 => {
                // method on an object: __index yields a number -> calling it would fail; use a record with a function instead
                let name = self.fresh_name();
                self.counter += 1;
                let id = self.counter;
                // local o = { n = id, get = function(self, k) emit("get", self.n, k) return self.n end }
                let getter = parse(&format!("return function(self, k) emit(\"get\", self.n, k) self.n = self.n + 1 return self.n end"), Mode::Lua51).ok()?.block;
                let f = match &getter.stmts[0] {
                    Stmt::Return(v) => v[0].clone(),
                    _ => return None,
                };
                let ctor = Expr::Table(vec![TableItem::Named("n".into(), num(id as f64)), TableItem::Named("get".into(), f)]);
                let decl = Stmt::Local { is_const: false, names: vec![Binding::new(name.clone())], values: vec![ctor] };
                self.declare(&name, Kind::Any, false);
                let recv = match self.t.choose(if self.o.luau { 6 } else { 4 }) {
                    0 => nm(&name),
                    1 => {
                        self.stat("method_call_probe_receiver");
                        callg("probe1", vec![nm(&name)])
                    }
                    2 => paren(callg("probe", vec![nm(&name), num(0.0)])),
                    3 => {
                        // receiver reached through an index whose key has a side effect
                        self.stat("method_call_probe_receiver");
                        index(Expr::Paren(Box::new(Expr::Table(vec![TableItem::Pos(nm(&name))]))), callg("probe1", vec![num(1.0)]))
                    }
                    4 => {
                        // a cast does not make the receiver simple
                        self.stat("method_call_cast_receiver");
                        let ty = self.ty_of(&Kind::Any);
                        paren(Expr::Cast { expr: Box::new(callg("probe1", vec![nm(&name)])), ty: Box::new(ty) })
                    }
                    _ => {
                        self.stat("method_call_cast_receiver");
                        let ty = self.ty_of(&Kind::Any);
                        paren(Expr::Cast { expr: Box::new(nm(&name)), ty: Box::new(ty) })
                    }
                };
                let arg = self.e_any(d);
                let c = mcall(recv, "get", vec![arg]);
                Some(Stmt::Do(Block::new(vec![decl, Stmt::Call(callg("emit", vec![c.clone()])), Stmt::Call(c)])))
            }
            _ => {
                let v = self.pick_var(|v| v.kind == Kind::Str)?;
                Some(Stmt::Call(callg("emit", vec![mcall(nm(&v.name), "sub", vec![self.small_pos(), self.small_pos()])])))
            }
        }
    }

    fn recursion_template(&mut self) -> Stmt {
        self.stat("recursion");
        self.counter += 1;
        let f = self.fresh_name();
        let g = format!("g{}", self.counter);
        let depth = 1 + self.t.choose(3);
        let text = match self.t.choose(3) {
            0 => format!(
                "do local function {f}(n, acc) if n <= 0 then return acc end emit(\"rec\", n) return {f}(n - 1, acc + n) end emit({f}({depth}, 0)) end"
            ),
            1 => format!(
                "do local {f}, {g} function {f}(n) if n <= 0 then return \"even\" end return {g}(n - 1) end function {g}(n) if n <= 0 then return \"odd\" end return {f}(n - 1) end emit({f}({depth})) end"
            ),
            _ => format!(
                "do local function {f}(n) if n > 0 then emit(\"down\", n) {f}(n - 1) emit(\"up\", n) end end {f}({depth}) end"
            ),
        };
        parse(&text, Mode::Lua51).expect("template parses").block.stmts.remove(0)
    }

    // ------------------------------------------------------------------ program

    pub fn program(&mut self) -> Block {
        let n = 2 + self.t.choose(self.o.max_stmts.max(3) - 1);
        let mut stmts = vec![];
        for _ in 0..n {
            if let Some(st) = self.stmt(self.o.max_depth.min(3)) {
                let term = matches!(st, Stmt::Return(_));
                stmts.push(st);
                if term {
                    self.pending.clear();
                    break;
                }
                stmts.append(&mut self.pending);
            }
        }
        if !matches!(stmts.last(), Some(Stmt::Return(_))) {
            // observe the final state of some variables, then return values
            let vars = self.visible_vars(|v| matches!(v.kind, Kind::Num | Kind::Str | Kind::Bool | Kind::Any | Kind::Seq | Kind::Rec(_)));
            if !vars.is_empty() {
                let args: Vec<Expr> = vars.iter().take(4).map(|v| nm(&v.name)).collect();
                stmts.push(Stmt::Call(callg("emit", args)));
            }
            if self.t.bool(200) {
                let k = self.t.choose(3);
                let r = self.expr_list(k, 2);
                stmts.push(Stmt::Return(r));
            }
        }
        if self.need_prelude {
            let mut all = prelude_block().stmts;
            all.extend(stmts);
            stmts = all;
        }
        Block::new(stmts)
    }
}

fn callg_abs(a: Expr) -> Expr {
    // keep sqrt arguments non-negative without depending on `math` being visible
    bin(BinOp::Mul, a.clone(), a)
}

trait WithField {
    fn with_field(self, f: Option<String>) -> Self;
}
impl WithField for FuncName {
    fn with_field(mut self, f: Option<String>) -> Self {
        if let Some(f) = f {
            self.fields.push(f);
        }
        self
    }
}

pub fn gen_program(t: &mut Tape, opts: &GenOpts) -> Program {
    let mut g = Gen::new(t, opts.clone());
    let block = g.program();
    Program { block, stats: g.stats }
}
