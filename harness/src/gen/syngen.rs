//! `syngen` — generator of arbitrary syntactically valid Lua 5.1 / Luau trees (not necessarily
//! executable): every statement, expression and type form, nested in each other.  Used by the
//! text-level checks (C02, C03, C07, C09, C12, C18).

use crate::luasyn::ast::*;
use crate::tape::Tape;
use std::collections::BTreeMap;

#[derive(Clone, Debug)]
pub struct SynOpts {
    pub luau: bool,
    pub types: bool,
    pub max_stmts: usize,
    pub max_depth: usize,
    /// attributes `@native` / `@[...]`
    pub attributes: bool,
    /// `const` declarations
    pub consts: bool,
    /// `type function` declarations
    pub type_functions: bool,
    /// Luau-only string escapes (\x \u{} \z): no lowering rule targets them
    pub luau_escapes: bool,
}

impl SynOpts {
    pub fn lua51() -> Self {
        SynOpts { luau: false, types: false, max_stmts: 8, max_depth: 4, attributes: false, consts: false, type_functions: false, luau_escapes: false }
    }
    pub fn luau() -> Self {
        SynOpts { luau: true, types: true, max_stmts: 8, max_depth: 4, attributes: true, consts: true, type_functions: false, luau_escapes: true }
    }
}

pub type SynStats = BTreeMap<&'static str, u32>;

const NAMES: [&str; 20] = ["a", "b", "c", "x", "y", "value", "self", "t", "f", "_", "i", "k", "v", "obj", "result", "math", "player_1", "a_1", "_2", "x1_"];
const FIELDS: [&str; 8] = ["x", "y", "name", "count", "new", "value", "end_", "type"];
const TYPE_NAMES: [&str; 8] = ["number", "string", "boolean", "any", "T", "U", "Foo", "Bar"];

pub struct Syn<'a, 'b> {
    t: &'a mut Tape<'b>,
    o: SynOpts,
    loop_depth: usize,
    vararg: bool,
    budget: i32,
    pub stats: SynStats,
}

fn nm(n: &str) -> Expr {
    Expr::Name(n.to_string())
}

impl<'a, 'b> Syn<'a, 'b> {
    pub fn new(t: &'a mut Tape<'b>, o: SynOpts) -> Self {
        Syn { t, o, loop_depth: 0, vararg: true, budget: 0, stats: SynStats::new() }
    }

    fn stat(&mut self, k: &'static str) {
        *self.stats.entry(k).or_insert(0) += 1;
    }

    fn name(&mut self) -> String {
        NAMES[self.t.choose(NAMES.len())].to_string()
    }

    fn field_name(&mut self) -> String {
        FIELDS[self.t.choose(FIELDS.len())].to_string()
    }

    // ---------------------------------------------------------------- literals

    pub fn number(&mut self) -> Expr {
        let luau = self.o.luau;
        let pool: [(&str, f64); 22] = [
            ("1e999", f64::INFINITY),
            ("1e309", f64::INFINITY),
            ("0", 0.0),
            ("1", 1.0),
            ("2", 2.0),
            ("10", 10.0),
            ("0.5", 0.5),
            ("1.5", 1.5),
            ("3.", 3.0),
            (".5", 0.5),
            ("1e3", 1e3),
            ("1E+2", 100.0),
            ("2e-2", 0.02),
            ("0x10", 16.0),
            ("0XfF", 255.0),
            ("1e100", 1e100),
            ("123456789", 123456789.0),
            ("0.1", 0.1),
            ("7", 7.0),
            ("5e0", 5.0),
            ("1e308", 1e308),
            ("42", 42.0),
        ];
        if luau && self.t.bool(50) {
            self.stat("luau_number");
            let lp: [(&str, f64); 6] = [("0b101", 5.0), ("0B11", 3.0), ("1_000", 1000.0), ("0x_FF", 255.0), ("1_0.5_0", 10.5), ("0b1_0", 2.0)];
            let (r, v) = lp[self.t.choose(lp.len())];
            return Expr::Number { raw: r.to_string(), value: v };
        }
        let (r, v) = pool[self.t.choose(pool.len())];
        Expr::Number { raw: r.to_string(), value: v }
    }

    pub fn string(&mut self) -> Expr {
        let pool: [(&str, &[u8]); 24] = [
            ("[[\n\nsecond]]", b"\nsecond"),
            ("[[a\r\nb]]", b"a\nb"),
            ("[=[\r\nfirst\r\n]=]", b"first\n"),
            ("[[\n]]", b""),
            ("\"\\255\"", b"\xff"),
            ("'\\254\\255'", b"\xfe\xff"),
            ("\"\\0011\"", b"\x011"),
            ("\"\\0277\"", b"\x1b7"),
            ("\"\"", b""),
            ("'a'", b"a"),
            ("\"hello\"", b"hello"),
            ("'it\\'s'", b"it's"),
            ("\"q\\\"q\"", b"q\"q"),
            ("\"a\\nb\"", b"a\nb"),
            ("\"tab\\there\"", b"tab\there"),
            ("\"\\065\\066\"", b"AB"),
            ("[[long]]", b"long"),
            ("[==[x]]y]==]", b"x]]y"),
            ("[[\nfirst]]", b"first"),
            ("\"end\"", b"end"),
            ("'--not a comment'", b"--not a comment"),
            ("\"\\\\\"", b"\\"),
            ("\"10\"", b"10"),
            ("\"\\0\"", b"\0"),
        ];
        if self.o.luau && self.o.luau_escapes && self.t.bool(40) {
            let lp: [(&str, &[u8]); 4] = [("\"\\x41\"", b"A"), ("\"\\u{48}i\"", b"Hi"), ("\"a\\z\n   b\"", b"ab"), ("'\\u{e9}'", "é".as_bytes())];
            let (r, v) = lp[self.t.choose(lp.len())];
            return Expr::Str { raw: r.to_string(), value: v.to_vec() };
        }
        if self.t.bool(45) {
            // assembled value: crosses the generators' length / newline thresholds for the long
            // bracket form, with carriage returns, tabs, quotes, `]]`, digits after control bytes
            self.stat("assembled_string");
            let pieces: [&[u8]; 20] = [
                b"GET /index.html HTTP/1.1", b"\r\n", b"\n", b"\r", b"\t", b" ", b"Host: example", b"]]", b"]=]", b"'", b"\"", b"\\", b"\x01", b"7", b"\n\n\n\n\n\n", b"0123456789012345678901234567890123456789", b"--", b"\xc3\xa9", b"\xff", b"\x80\xfe",
            ];
            let n = 1 + self.t.choose(6);
            let mut v: Vec<u8> = vec![];
            for _ in 0..n {
                v.extend_from_slice(pieces[self.t.choose(pieces.len())]);
            }
            return Expr::Str { raw: crate::luaprint::lit::plain_string(&v), value: v };
        }
        let (r, v) = pool[self.t.choose(pool.len())];
        Expr::Str { raw: r.to_string(), value: v.to_vec() }
    }

    // ---------------------------------------------------------------- expressions

    fn leaf(&mut self) -> Expr {
        match self.t.weighted(&[5, 4, 3, 1, 1, 1, if self.vararg { 1 } else { 0 }]) {
            0 => {
                let n = self.name();
                nm(&n)
            }
            1 => self.number(),
            2 => self.string(),
            3 => Expr::Nil,
            4 => Expr::True,
            5 => Expr::False,
            _ => Expr::Vararg,
        }
    }

    /// something that can be called / indexed
    fn prefix(&mut self, d: usize) -> Expr {
        if d == 0 || self.budget <= 0 {
            let n = self.name();
            return nm(&n);
        }
        self.budget -= 1;
        match self.t.weighted(&[6, 4, 3, 3, 2, 2]) {
            0 => {
                let n = self.name();
                nm(&n)
            }
            1 => {
                let o = self.prefix(d - 1);
                Expr::Field { obj: Box::new(o), name: self.field_name() }
            }
            2 => {
                let o = self.prefix(d - 1);
                let k = self.expr(d - 1);
                Expr::Index { obj: Box::new(o), key: Box::new(k) }
            }
            3 => self.call(d - 1),
            4 => Expr::Paren(Box::new(self.expr(d - 1))),
            _ => {
                let o = self.prefix(d - 1);
                let n = self.t.choose(3);
                let args = (0..n).map(|_| self.expr(d - 1)).collect();
                let types = if self.o.luau && self.o.types && self.t.bool(25) {
                    self.stat("method_type_instantiation");
                    let k = 1 + self.t.choose(2);
                    Some((0..k).map(|_| TypeArg::Type(unparen(self.ty(1)))).collect())
                } else {
                    None
                };
                Expr::MethodCall { obj: Box::new(o), name: self.field_name(), types, args, sugar: CallSugar::Parens }
            }
        }
    }

    pub fn call(&mut self, d: usize) -> Expr {
        self.stat("call");
        let mut f = self.prefix(d);
        if self.o.luau && self.o.types && self.t.bool(12) {
            self.stat("type_instantiation");
            let n = 1 + self.t.choose(2);
            let types = (0..n).map(|_| TypeArg::Type(unparen(self.ty(1)))).collect();
            f = Expr::Instantiate { expr: Box::new(f), types };
        }
        match self.t.weighted(&[8, 1, 1]) {
            0 => {
                let n = self.t.choose(4);
                let args = (0..n).map(|_| self.expr(d)).collect();
                Expr::Call { f: Box::new(f), args, sugar: CallSugar::Parens }
            }
            1 => {
                self.stat("call_string_sugar");
                Expr::Call { f: Box::new(f), args: vec![self.string()], sugar: CallSugar::Str }
            }
            _ => {
                self.stat("call_table_sugar");
                let tbl = self.table(d);
                Expr::Call { f: Box::new(f), args: vec![tbl], sugar: CallSugar::Table }
            }
        }
    }

    fn table(&mut self, d: usize) -> Expr {
        self.stat("table");
        let n = self.t.choose(4);
        let mut items = vec![];
        for _ in 0..n {
            let d1 = d.saturating_sub(1);
            items.push(match self.t.weighted(&[4, 3, 2]) {
                0 => TableItem::Pos(self.expr(d1)),
                1 => TableItem::Named(self.field_name(), self.expr(d1)),
                _ => TableItem::Keyed(self.expr(d1), self.expr(d1)),
            });
        }
        Expr::Table(items)
    }

    pub fn func_body(&mut self, d: usize, method_self: bool) -> FuncBody {
        let np = self.t.choose(4);
        let mut params = vec![];
        let mut used = vec![];
        for _ in 0..np {
            let mut n = self.name();
            if used.contains(&n) || (method_self && n == "self") {
                n = format!("p{}", used.len());
            }
            used.push(n.clone());
            let ty = if self.o.types && self.t.bool(90) { Some(self.ty(2)) } else { None };
            params.push(Binding { name: n, ty });
        }
        let vararg = self.t.bool(70);
        let vararg_ty = if vararg && self.o.types && self.t.bool(80) {
            Some(Box::new(if self.t.bool(180) { VariadicAnnotation::Type(self.ty(1)) } else { VariadicAnnotation::GenericPack("T".into()) }))
        } else {
            None
        };
        let generics = if self.o.types && self.t.bool(40) {
            self.stat("function_generics");
            Some(Generics { types: vec!["T".into()], packs: if self.t.bool(80) { vec!["R".into()] } else { vec![] } })
        } else {
            None
        };
        let ret_ty = if self.o.types && self.t.bool(80) { Some(Box::new(self.ret_ty(2))) } else { None };
        let saved = (self.loop_depth, self.vararg);
        self.loop_depth = 0;
        self.vararg = vararg;
        let n = self.t.choose(3);
        let body = self.block(n, d.saturating_sub(1));
        self.loop_depth = saved.0;
        self.vararg = saved.1;
        FuncBody { generics, params, vararg, vararg_ty, ret_ty, body }
    }

    fn attrs(&mut self) -> Vec<Attribute> {
        if !(self.o.luau && self.o.attributes) || !self.t.bool(50) {
            return vec![];
        }
        self.stat("attribute");
        // grouped attributes `@[a, b]` are not accepted by darklua's parser (full_moon) yet: out of domain
        match self.t.choose(3) {
            0 => vec![Attribute::Name("native".into())],
            1 => vec![Attribute::Name("checked".into()), Attribute::Name("native".into())],
            _ => vec![Attribute::Name("deprecated".into())],
        }
    }

    pub fn expr(&mut self, d: usize) -> Expr {
        if d == 0 || self.budget <= 0 {
            return self.leaf();
        }
        self.budget -= 1;
        let luau = self.o.luau;
        let w = [
            6,                                           // 0 leaf
            8,                                           // 1 binary
            3,                                           // 2 unary
            3,                                           // 3 call / prefix
            2,                                           // 4 table
            2,                                           // 5 function
            2,                                           // 6 paren
            if luau { 2 } else { 0 },                    // 7 if-expression
            if luau { 2 } else { 0 },                    // 8 interpolated string
            if luau && self.o.types { 2 } else { 0 },    // 9 cast
        ];
        match self.t.weighted(&w) {
            0 => self.leaf(),
            1 if self.t.bool(20) => {
                // numbers inside a concatenation chain: the text around `..` must keep them numbers
                self.stat("number_in_concat_chain");
                let a = if self.t.bool(128) { self.expr(d - 1) } else { self.number() };
                let m = self.number();
                let b = if self.t.bool(128) { self.expr(d - 1) } else { self.number() };
                if self.t.bool(128) {
                    // written `a .. m .. b` (right associative)
                    Expr::Binary(BinOp::Concat, Box::new(a), Box::new(Expr::Binary(BinOp::Concat, Box::new(m), Box::new(b))))
                } else {
                    Expr::Binary(BinOp::Concat, Box::new(Expr::Binary(BinOp::Concat, Box::new(a), Box::new(m))), Box::new(b))
                }
            }
            1 => {
                let mut ops: Vec<BinOp> = BinOp::ALL.to_vec();
                if !luau {
                    ops.retain(|o| *o != BinOp::IDiv);
                }
                let op = ops[self.t.choose(ops.len())];
                if op == BinOp::IDiv {
                    self.stat("floor_div");
                }
                let a = self.expr(d - 1);
                let b = self.expr(d - 1);
                Expr::Binary(op, Box::new(a), Box::new(b))
            }
            2 => {
                let op = [UnOp::Neg, UnOp::Not, UnOp::Len][self.t.choose(3)];
                Expr::Unary(op, Box::new(self.expr(d - 1)))
            }
            3 => self.prefix(d),
            4 => self.table(d),
            5 => {
                let attrs = self.attrs();
                let f = self.func_body(d - 1, false);
                Expr::Function { attrs, func: Box::new(f) }
            }
            6 => Expr::Paren(Box::new(self.expr(d - 1))),
            7 => {
                self.stat("if_expr");
                let n = 1 + self.t.weighted(&[6, 2, 2, 1]);
                let clauses = (0..n).map(|_| (self.expr(d - 1), self.expr(d - 1))).collect();
                Expr::IfExpr { clauses, else_: Box::new(self.expr(d - 1)) }
            }
            8 => {
                self.stat("interp_string");
                let n = self.t.choose(4);
                let mut segs = vec![];
                for _ in 0..n {
                    if self.t.bool(160) {
                        let lit: &[u8] = [&b"a"[..], b" ", b"%d", b"\\", b"`", b"\n", b"{", b"end", b"\xc3\xa9", b"\x007", b"\x1b1", b"100%", b"\xff", b"\r\n"][self.t.choose(14)];
                        if !matches!(segs.last(), Some(InterpSeg::Str(_))) {
                            segs.push(InterpSeg::Str(lit.to_vec()));
                        }
                    }
                    segs.push(InterpSeg::Expr(self.expr(d - 1)));
                }
                if segs.is_empty() || self.t.bool(100) {
                    if !matches!(segs.last(), Some(InterpSeg::Str(_))) {
                        segs.push(InterpSeg::Str(b"tail".to_vec()));
                    }
                }
                Expr::Interp(segs)
            }
            _ => {
                self.stat("cast");
                let e = self.expr(d - 1);
                Expr::Cast { expr: Box::new(e), ty: Box::new(self.ty(2)) }
            }
        }
    }

    // ---------------------------------------------------------------- types

    fn type_name(&mut self, d: usize) -> TypeName {
        let name = TYPE_NAMES[self.t.choose(TYPE_NAMES.len())].to_string();
        let params = if d > 0 && self.t.bool(50) {
            self.stat("type_parameters");
            let n = 1 + self.t.choose(2);
            let mut v = vec![];
            for _ in 0..n {
                v.push(match self.t.weighted(&[8, 1, 1, 1]) {
                    // a parenthesised type in argument position reads back as a one-element pack
                    0 => TypeArg::Type(unparen(self.ty(d - 1))),
                    1 => TypeArg::Pack(TypePack { types: vec![self.ty(d - 1), self.ty(d - 1)], tail: None }),
                    2 => TypeArg::Variadic(Box::new(self.ty(d - 1))),
                    _ => TypeArg::GenericPack("R".into()),
                });
            }
            Some(v)
        } else {
            None
        };
        TypeName { name, params }
    }

    fn simple_ty(&mut self, d: usize) -> Type {
        if d == 0 {
            return Type::Name(self.type_name(0));
        }
        match self.t.weighted(&[8, 2, 1, 1, 1, 2, 3, 3, 2, 2]) {
            0 => Type::Name(self.type_name(d)),
            1 => Type::Qualified { namespace: "Mod".into(), name: self.type_name(d - 1) },
            2 => Type::True,
            3 => Type::Nil,
            4 => Type::Str(b"lit".to_vec()),
            5 => Type::Array(Box::new(self.ty(d - 1))),
            6 => {
                self.stat("table_type");
                let n = self.t.choose(3);
                let mut items = vec![];
                let mut has_indexer = false;
                for _ in 0..n {
                    let access = if self.t.bool(40) { Some(if self.t.bool(128) { Access::Read } else { Access::Write }) } else { None };
                    items.push(match self.t.weighted(&[6, 1, if has_indexer { 0 } else { 2 }]) {
                        0 => TableTypeItem::Prop { access, name: self.field_name(), ty: self.ty(d - 1) },
                        1 => TableTypeItem::StrProp { access, key: b"key".to_vec(), ty: self.ty(d - 1) },
                        _ => {
                            has_indexer = true;
                            // an indexer whose key is a string singleton is only distinguishable from
                            // a string property by parentheses: not generated
                            let key = match unparen(self.ty(d - 1)) {
                                Type::Str(_) => Type::Name(TypeName { name: "string".into(), params: None }),
                                k => k,
                            };
                            TableTypeItem::Indexer { access, key, value: self.ty(d - 1) }
                        }
                    });
                }
                Type::Table(items)
            }
            7 => {
                self.stat("function_type");
                let n = self.t.choose(3);
                let mut params = vec![];
                for _ in 0..n {
                    let pn = if self.t.bool(100) { Some(self.name()) } else { None };
                    params.push((pn, self.ty(d - 1)));
                }
                let variadic = if self.t.bool(50) {
                    Some(Box::new(if self.t.bool(180) { VariadicAnnotationPack::Variadic(self.ty(d - 1)) } else { VariadicAnnotationPack::GenericPack("R".into()) }))
                } else {
                    None
                };
                let generics = if self.t.bool(40) { Some(Generics { types: vec!["T".into()], packs: vec![] }) } else { None };
                Type::Function(Box::new(FunctionType { generics, params, variadic, ret: Box::new(self.ret_ty(d - 1)) }))
            }
            8 => {
                self.stat("typeof");
                let saved = self.budget;
                self.budget = 4;
                let e = self.expr(1);
                self.budget = saved;
                Type::Typeof(Box::new(e))
            }
            _ => Type::Paren(Box::new(self.ty(d - 1))),
        }
    }

    pub fn ty(&mut self, d: usize) -> Type {
        let base = self.simple_ty(d);
        if d == 0 {
            return base;
        }
        match self.t.weighted(&[8, 2, 2, 1]) {
            0 => base,
            1 => Type::Optional(Box::new(base)),
            2 => {
                let n = 1 + self.t.choose(2);
                let mut types = vec![base];
                for _ in 0..n {
                    let mut m = self.simple_ty(d - 1);
                    if self.t.bool(60) {
                        m = Type::Optional(Box::new(m));
                    }
                    types.push(m);
                }
                Type::Union { leading: self.t.bool(40), types }
            }
            _ => {
                let mut types = vec![base];
                types.push(self.simple_ty(d - 1));
                Type::Intersection { leading: self.t.bool(40), types }
            }
        }
    }

    fn ret_ty(&mut self, d: usize) -> ReturnType {
        match self.t.weighted(&[6, 3, 1, 1]) {
            0 => ReturnType::Type(unparen(self.ty(d))),
            1 => {
                let n = self.t.choose(3);
                let types: Vec<Type> = (0..n).map(|_| self.ty(d.saturating_sub(1))).collect();
                let tail = if self.t.bool(50) { Some(Box::new(VariadicAnnotationPack::Variadic(self.ty(0)))) } else { None };
                // a one-element pack without tail reads back as a parenthesised type: avoid
                if types.len() == 1 && tail.is_none() {
                    return ReturnType::Type(unparen(types.into_iter().next().unwrap()));
                }
                ReturnType::Pack(TypePack { types, tail })
            }
            2 => ReturnType::GenericPack("R".into()),
            _ => ReturnType::Variadic(self.ty(d.saturating_sub(1))),
        }
    }

    // ---------------------------------------------------------------- statements

    pub fn block(&mut self, n: usize, d: usize) -> Block {
        let mut stmts = vec![];
        for _ in 0..n {
            let st = self.stmt(d);
            let term = matches!(st, Stmt::Return(_) | Stmt::Break | Stmt::Continue);
            stmts.push(st);
            if term {
                break;
            }
        }
        Block::new(stmts)
    }

    fn target(&mut self, d: usize) -> Expr {
        match self.t.weighted(&[5, 3, 2]) {
            0 => {
                let n = self.name();
                nm(&n)
            }
            1 => {
                let o = self.prefix(d);
                Expr::Field { obj: Box::new(o), name: self.field_name() }
            }
            _ => {
                let o = self.prefix(d);
                let k = self.expr(d);
                Expr::Index { obj: Box::new(o), key: Box::new(k) }
            }
        }
    }

    fn bindings(&mut self, n: usize) -> Vec<Binding> {
        let mut v: Vec<Binding> = vec![];
        for _ in 0..n {
            let name = self.name();
            let ty = if self.o.types && self.t.bool(80) { Some(self.ty(2)) } else { None };
            v.push(Binding { name, ty });
        }
        v
    }

    pub fn stmt(&mut self, d: usize) -> Stmt {
        self.budget = 10;
        let ed = self.o.max_depth.min(3);
        let nest = d > 0;
        let luau = self.o.luau;
        let w = [
            8,                                                      // 0 local
            5,                                                      // 1 assign
            5,                                                      // 2 call
            if nest { 4 } else { 0 },                               // 3 if
            if nest { 2 } else { 0 },                               // 4 while
            if nest { 2 } else { 0 },                               // 5 repeat
            if nest { 2 } else { 0 },                               // 6 numeric for
            if nest { 2 } else { 0 },                               // 7 generic for
            if nest { 2 } else { 0 },                               // 8 do
            if nest { 3 } else { 0 },                               // 9 function statement
            if nest { 3 } else { 0 },                               // 10 local function
            2,                                                      // 11 return (ends the block)
            if self.loop_depth > 0 { 2 } else { 0 },                // 12 break / continue
            if luau { 3 } else { 0 },                               // 13 compound assignment
            if luau && self.o.types { 2 } else { 0 },               // 14 type declaration
        ];
        match self.t.weighted(&w) {
            0 => {
                let n = 1 + self.t.weighted(&[7, 2, 1]);
                let names = self.bindings(n);
                let nv = self.t.weighted(&[2, 6, 2, 1]);
                let values = (0..nv).map(|_| self.expr(ed)).collect::<Vec<_>>();
                // `const` needs a value for every name, or a last value that can supply several
                let open_tail = matches!(values.last(), Some(Expr::Call { .. } | Expr::MethodCall { .. } | Expr::Vararg));
                let is_const = luau && self.o.consts && !values.is_empty() && (values.len() == names.len() || (values.len() < names.len() && open_tail)) && self.t.bool(if values.len() == names.len() { 30 } else { 110 });
                if is_const {
                    self.stat("const");
                }
                Stmt::Local { is_const, names, values }
            }
            1 => {
                let n = 1 + self.t.weighted(&[7, 2]);
                let targets = (0..n).map(|_| self.target(2)).collect();
                let nv = 1 + self.t.weighted(&[7, 2]);
                let values = (0..nv).map(|_| self.expr(ed)).collect();
                Stmt::Assign { targets, values }
            }
            2 => {
                let c = match self.t.choose(4) {
                    0 => {
                        let o = self.prefix(2);
                        let n = self.t.choose(3);
                        let args = (0..n).map(|_| self.expr(ed)).collect();
                        Expr::MethodCall { obj: Box::new(o), name: self.field_name(), types: None, args, sugar: CallSugar::Parens }
                    }
                    _ => self.call(2),
                };
                Stmt::Call(c)
            }
            3 => {
                let n = 1 + self.t.weighted(&[6, 2, 1]);
                let mut clauses = vec![];
                for _ in 0..n {
                    let c = self.expr(ed);
                    let nb = self.t.choose(3);
                    clauses.push((c, self.block(nb, d - 1)));
                }
                let else_ = if self.t.bool(100) {
                    let nb = self.t.choose(3);
                    Some(self.block(nb, d - 1))
                } else {
                    None
                };
                Stmt::If { clauses, else_ }
            }
            4 => {
                let cond = self.expr(ed);
                self.loop_depth += 1;
                let nb = self.t.choose(3);
                let body = self.block(nb, d - 1);
                self.loop_depth -= 1;
                Stmt::While { cond, body }
            }
            5 => {
                self.loop_depth += 1;
                let nb = self.t.choose(3);
                let body = self.block(nb, d - 1);
                self.loop_depth -= 1;
                let cond = self.expr(ed);
                Stmt::Repeat { body, cond }
            }
            6 => {
                let var = self.bindings(1).remove(0);
                let start = self.expr(2);
                let limit = self.expr(2);
                let step = if self.t.bool(100) { Some(self.expr(2)) } else { None };
                self.loop_depth += 1;
                let nb = self.t.choose(3);
                let body = self.block(nb, d - 1);
                self.loop_depth -= 1;
                Stmt::NumFor { var, start, limit, step, body }
            }
            7 => {
                let n = 1 + self.t.choose(3);
                let vars = self.bindings(n);
                let ne = 1 + self.t.weighted(&[7, 2]);
                let exprs = (0..ne).map(|_| self.expr(2)).collect();
                self.loop_depth += 1;
                let nb = self.t.choose(3);
                let body = self.block(nb, d - 1);
                self.loop_depth -= 1;
                Stmt::GenFor { vars, exprs, body }
            }
            8 => {
                let nb = self.t.choose(3);
                Stmt::Do(self.block(nb, d - 1))
            }
            9 => {
                let base = self.name();
                let nf = self.t.weighted(&[5, 3, 1]);
                let fields = (0..nf).map(|_| self.field_name()).collect();
                let method = if self.t.bool(80) { Some(self.field_name()) } else { None };
                let attrs = self.attrs();
                let is_method = method.is_some();
                let func = self.func_body(d, is_method);
                Stmt::Function { attrs, name: FuncName { base, fields, method }, func }
            }
            10 => {
                let name = self.name();
                let attrs = self.attrs();
                let func = self.func_body(d, false);
                // attributes in front of `const function` are not part of the modelled grammar
                let is_const = luau && self.o.consts && attrs.is_empty() && self.t.bool(25);
                if is_const {
                    self.stat("const");
                }
                Stmt::LocalFunction { attrs, is_const, name, func }
            }
            11 => {
                let n = self.t.weighted(&[3, 5, 2]);
                Stmt::Return((0..n).map(|_| self.expr(ed)).collect())
            }
            12 => {
                if luau && self.t.bool(128) {
                    self.stat("continue");
                    Stmt::Continue
                } else {
                    Stmt::Break
                }
            }
            13 => {
                self.stat("compound_assign");
                let ops = [BinOp::Add, BinOp::Sub, BinOp::Mul, BinOp::Div, BinOp::IDiv, BinOp::Mod, BinOp::Pow, BinOp::Concat];
                let op = ops[self.t.choose(ops.len())];
                if op == BinOp::IDiv {
                    self.stat("floor_div");
                }
                let target = self.target(2);
                Stmt::CompoundAssign { target, op, value: self.expr(ed) }
            }
            _ if self.t.bool(50) => {
                // a user-defined type function: its body is ordinary code that the rules process
                self.stat("type_function");
                let func = self.func_body(d.saturating_sub(1).max(1), false);
                Stmt::TypeFunction { export: self.t.bool(60), name: ["Compute", "Pick", "Make"][self.t.choose(3)].to_string(), func }
            }
            _ => {
                self.stat("type_decl");
                let generics = if self.t.bool(90) {
                    let mut types = vec![("T".to_string(), None)];
                    if self.t.bool(100) {
                        types.push(("U".to_string(), Some(self.ty(1))));
                    }
                    // once a parameter has a default every later one needs one too
                    let need_default = types.iter().any(|(_, d)| d.is_some());
                    let packs = if self.t.bool(60) { vec![("R".to_string(), if need_default || self.t.bool(128) { Some(GenericPackDefault::Variadic(self.ty(0))) } else { None })] } else { vec![] };
                    Some(GenericsWithDefaults { types, packs })
                } else {
                    None
                };
                Stmt::TypeDecl { export: self.t.bool(60), name: ["Foo", "Bar", "Props"][self.t.choose(3)].to_string(), generics, ty: self.ty(3) }
            }
        }
    }

    pub fn program(&mut self) -> Block {
        let n = self.t.choose(self.o.max_stmts + 1);
        self.block(n, self.o.max_depth.min(3))
    }
}

fn unparen(t: Type) -> Type {
    match t {
        Type::Paren(inner) => unparen(*inner),
        other => other,
    }
}

pub fn gen_tree(t: &mut Tape, o: &SynOpts) -> (Block, SynStats) {
    let mut g = Syn::new(t, o.clone());
    let b = g.program();
    (b, g.stats)
}
