//! `datagen`: abstract data values and the harness's OWN writers spelling a value as JSON, JSON5,
//! YAML or TOML text with syntactic variety (C14).  Nothing here uses a serializer crate: the
//! abstract value is the reference, the document text is an independent spelling of it.
//!
//! Domain decisions (what is *not* generated because no Lua meaning is documented or because the
//! spelling is ambiguous between YAML 1.1 / 1.2): YAML null / sequence / mapping keys, tags,
//! anchors, merge keys, plain scalars that look like `yes`/`no`/`on`/`off`/`inf`/`nan`, numbers
//! with leading zeros, TOML datetimes, duplicate keys, finite spellings that overflow a double.

use crate::tape::Tape;
use serde_json::{json, Value};

#[derive(Clone, Copy, Debug, PartialEq, Eq)]
pub enum Fmt {
    Json,
    Json5,
    Yaml,
    Toml,
}

impl Fmt {
    pub const ALL: [Fmt; 4] = [Fmt::Json, Fmt::Json5, Fmt::Yaml, Fmt::Toml];
    pub fn name(self) -> &'static str {
        match self {
            Fmt::Json => "json",
            Fmt::Json5 => "json5",
            Fmt::Yaml => "yaml",
            Fmt::Toml => "toml",
        }
    }
    pub fn from_name(s: &str) -> Option<Fmt> {
        Fmt::ALL.iter().copied().find(|f| f.name() == s)
    }
}

/// a number as an exact decimal (or a non-finite value)
#[derive(Clone, Debug, PartialEq)]
pub enum Num {
    /// (-1)^neg * digits * 10^exp; `digits` has no leading zero (except "0") and no trailing
    /// zero (except "0"); `float_only`: the writers never use an integer spelling for it
    Dec { neg: bool, digits: String, exp: i32, float_only: bool },
    Inf { neg: bool },
    NaN,
}

impl Num {
    pub fn dec(neg: bool, digits: &str, exp: i32, float_only: bool) -> Num {
        let mut d: String = digits.trim_start_matches('0').to_string();
        let mut exp = exp;
        if d.is_empty() {
            return Num::Dec { neg, digits: "0".into(), exp: 0, float_only };
        }
        while d.ends_with('0') && d.len() > 1 {
            d.pop();
            exp += 1;
        }
        Num::Dec { neg, digits: d, exp, float_only }
    }
    pub fn int(v: i128) -> Num {
        Num::dec(v < 0, &v.unsigned_abs().to_string(), 0, false)
    }
    /// the reference value: Rust's correctly rounded decimal -> double conversion
    pub fn expected(&self) -> f64 {
        match self {
            Num::Dec { neg, digits, exp, .. } => {
                format!("{}{}e{}", if *neg { "-" } else { "" }, digits, exp).parse::<f64>().expect("decimal")
            }
            Num::Inf { neg } => {
                if *neg {
                    f64::NEG_INFINITY
                } else {
                    f64::INFINITY
                }
            }
            Num::NaN => f64::NAN,
        }
    }
    pub fn is_zero(&self) -> bool {
        matches!(self, Num::Dec { digits, .. } if digits == "0")
    }
    /// full digit string when the value is an integer of at most 40 digits
    pub fn int_digits(&self) -> Option<String> {
        match self {
            Num::Dec { digits, exp, .. } if *exp >= 0 && digits.len() + *exp as usize <= 40 => {
                if digits == "0" {
                    Some("0".into())
                } else {
                    Some(format!("{}{}", digits, "0".repeat(*exp as usize)))
                }
            }
            _ => None,
        }
    }
    /// |value| as u128 when it is an integer that fits
    pub fn int_magnitude(&self) -> Option<u128> {
        self.int_digits().and_then(|d| d.parse::<u128>().ok())
    }
    pub fn is_small_int(&self) -> bool {
        self.int_magnitude().map(|m| m <= 1000).unwrap_or(false)
    }
}

#[derive(Clone, Debug, PartialEq)]
pub enum Key {
    Str(String),
    /// YAML only
    Int(i64),
    /// YAML only
    Bool(bool),
}

#[derive(Clone, Debug, PartialEq)]
pub enum Val {
    Null,
    Bool(bool),
    Num(Num),
    Str(String),
    Arr(Vec<Val>),
    Obj(Vec<(Key, Val)>),
}

pub const LUA_KEYWORDS: [&str; 21] = [
    "and", "break", "do", "else", "elseif", "end", "false", "for", "function", "if", "in", "local", "nil", "not", "or", "repeat",
    "return", "then", "true", "until", "while",
];

pub fn is_lua_identifier(s: &str) -> bool {
    let b = s.as_bytes();
    !b.is_empty()
        && (b[0].is_ascii_alphabetic() || b[0] == b'_')
        && b.iter().all(|c| c.is_ascii_alphanumeric() || *c == b'_')
        && !LUA_KEYWORDS.contains(&s)
}

pub fn string_needs_escape(s: &str) -> bool {
    s.bytes().any(|b| !(0x20..=0x7e).contains(&b) || b == b'"' || b == b'\'' || b == b'\\')
}

// ------------------------------------------------------------------------------ JSON encoding
// (of the abstract value, for replay files)

impl Num {
    pub fn to_json(&self) -> Value {
        match self {
            Num::Dec { neg, digits, exp, float_only } => json!({"neg": neg, "digits": digits, "exp": exp, "float_only": float_only}),
            Num::Inf { neg } => json!({"inf": true, "neg": neg}),
            Num::NaN => json!({"nan": true}),
        }
    }
    pub fn from_json(v: &Value) -> Option<Num> {
        if v.get("nan").is_some() {
            return Some(Num::NaN);
        }
        if v.get("inf").is_some() {
            return Some(Num::Inf { neg: v.get("neg")?.as_bool()? });
        }
        Some(Num::Dec {
            neg: v.get("neg")?.as_bool()?,
            digits: v.get("digits")?.as_str()?.to_string(),
            exp: v.get("exp")?.as_i64()? as i32,
            float_only: v.get("float_only").and_then(|b| b.as_bool()).unwrap_or(false),
        })
    }
}

impl Key {
    pub fn to_json(&self) -> Value {
        match self {
            Key::Str(s) => json!(s),
            Key::Int(i) => json!({ "int": i }),
            Key::Bool(b) => json!(b),
        }
    }
    pub fn from_json(v: &Value) -> Option<Key> {
        match v {
            Value::String(s) => Some(Key::Str(s.clone())),
            Value::Bool(b) => Some(Key::Bool(*b)),
            Value::Object(o) => Some(Key::Int(o.get("int")?.as_i64()?)),
            _ => None,
        }
    }
    pub fn describe(&self) -> String {
        match self {
            Key::Str(s) => format!("{:?}", s),
            Key::Int(i) => format!("{}", i),
            Key::Bool(b) => format!("{}", b),
        }
    }
}

impl Val {
    pub fn to_json(&self) -> Value {
        match self {
            Val::Null => Value::Null,
            Val::Bool(b) => json!(b),
            Val::Num(n) => json!({ "num": n.to_json() }),
            Val::Str(s) => json!(s),
            Val::Arr(a) => json!({ "arr": a.iter().map(|v| v.to_json()).collect::<Vec<_>>() }),
            Val::Obj(o) => json!({ "obj": o.iter().map(|(k, v)| json!([k.to_json(), v.to_json()])).collect::<Vec<_>>() }),
        }
    }
    pub fn from_json(v: &Value) -> Option<Val> {
        match v {
            Value::Null => Some(Val::Null),
            Value::Bool(b) => Some(Val::Bool(*b)),
            Value::String(s) => Some(Val::Str(s.clone())),
            Value::Object(o) => {
                if let Some(n) = o.get("num") {
                    return Some(Val::Num(Num::from_json(n)?));
                }
                if let Some(a) = o.get("arr") {
                    return a.as_array()?.iter().map(Val::from_json).collect::<Option<Vec<_>>>().map(Val::Arr);
                }
                let e = o.get("obj")?.as_array()?;
                let mut out = vec![];
                for p in e {
                    out.push((Key::from_json(p.get(0)?)?, Val::from_json(p.get(1)?)?));
                }
                Some(Val::Obj(out))
            }
            _ => None,
        }
    }

    /// census used by the non-triviality rule and the class histogram
    pub fn census(&self, c: &mut Census) {
        match self {
            Val::Null => c.nulls += 1,
            Val::Bool(_) => c.bools += 1,
            Val::Num(n) => {
                c.numbers += 1;
                match n {
                    Num::Dec { .. } => {
                        if !n.is_small_int() {
                            c.hard_numbers += 1;
                        }
                        if let Some(m) = n.int_magnitude() {
                            if m > (1u128 << 53) {
                                c.big_ints += 1;
                            }
                        }
                        if n.is_zero() && matches!(n, Num::Dec { neg: true, .. }) {
                            c.neg_zero += 1;
                        }
                    }
                    _ => {
                        c.hard_numbers += 1;
                        c.non_finite += 1;
                    }
                }
            }
            Val::Str(s) => {
                c.strings += 1;
                if string_needs_escape(s) {
                    c.escape_strings += 1;
                }
                if s.len() >= 20 {
                    c.long_strings += 1;
                }
            }
            Val::Arr(a) => {
                c.arrays += 1;
                if a.is_empty() {
                    c.empty_containers += 1;
                }
                if a.iter().any(|v| matches!(v, Val::Null)) {
                    c.arrays_with_null += 1;
                }
                for v in a {
                    v.census(c);
                }
            }
            Val::Obj(o) => {
                c.objects += 1;
                if o.is_empty() {
                    c.empty_containers += 1;
                }
                for (k, v) in o {
                    c.keys += 1;
                    match k {
                        Key::Str(s) => {
                            if !is_lua_identifier(s) {
                                c.non_ident_keys += 1;
                            }
                            if LUA_KEYWORDS.contains(&s.as_str()) {
                                c.keyword_keys += 1;
                            }
                            if string_needs_escape(s) {
                                c.escape_keys += 1;
                            }
                        }
                        _ => {
                            c.non_ident_keys += 1;
                            c.non_string_keys += 1;
                        }
                    }
                    v.census(c);
                }
            }
        }
    }
}

#[derive(Clone, Debug, Default)]
pub struct Census {
    pub nulls: u64,
    pub bools: u64,
    pub numbers: u64,
    pub hard_numbers: u64,
    pub big_ints: u64,
    pub neg_zero: u64,
    pub non_finite: u64,
    pub strings: u64,
    pub escape_strings: u64,
    pub long_strings: u64,
    pub arrays: u64,
    pub arrays_with_null: u64,
    pub objects: u64,
    pub empty_containers: u64,
    pub keys: u64,
    pub non_ident_keys: u64,
    pub keyword_keys: u64,
    pub escape_keys: u64,
    pub non_string_keys: u64,
}

impl Census {
    pub fn nontrivial(&self) -> bool {
        self.non_ident_keys > 0 || self.escape_strings > 0 || self.hard_numbers > 0
    }
}

// ------------------------------------------------------------------------------ value generator

/// generator switches: what the search must stay away from (known findings)
#[derive(Debug, Default)]
pub struct Avoid {
    /// never generate Infinity / NaN in JSON / JSON5 documents
    pub json_non_finite: bool,
    /// never spell an integer outside the 64-bit range without fraction / exponent
    pub wide_int_spelling: bool,
    /// never generate a string that darklua writes in long-bracket form and that ends with `]`
    /// followed by `=` signs (the trailing `=` signs are cut)
    pub long_bracket_trailing_equals: bool,
    /// how many strings were changed by `long_bracket_trailing_equals`
    pub long_bracket_applied: std::sync::atomic::AtomicU64,
}

/// darklua's dense/readable generators write such a string between long brackets
/// (src/generator/utils.rs: write_string)
pub fn long_bracket_eligible(s: &str) -> bool {
    let b = s.as_bytes();
    b.iter().all(|c| c.is_ascii_graphic() || *c == b' ' || *c == b'\n')
        && b.len() >= 20
        && (b.len() >= 60 || b.iter().filter(|c| **c == b'\n').count() >= 6)
}

fn apply_string_avoid(mut s: String, avoid: &Avoid) -> String {
    if avoid.long_bracket_trailing_equals && long_bracket_eligible(&s) {
        let cut = s.trim_end_matches('=');
        if cut.len() < s.len() && cut.ends_with(']') {
            let n = cut.len();
            s.truncate(n);
            avoid.long_bracket_applied.fetch_add(1, std::sync::atomic::Ordering::Relaxed);
        }
    }
    s
}

const IDENT_KEYS: [&str; 14] =
    ["a", "b", "key", "value", "_x", "A1", "camelCase", "snake_case", "name", "path", "rule", "rules", "generator", "current"];
const EXTRA_KEYWORD_KEYS: [&str; 6] = ["continue", "goto", "type", "export", "self", "typeof"];
const AWKWARD_KEYS: [&str; 65] = [
    // long enough for the generators' long-bracket form (>= 60 bytes without a line break)
    "Are you sure you want to delete this item? This action cannot be undone.",
    "https://example.org/some/rather/long/path/that/keeps/going?and=query&more=1",
    "sixty bytes of text with [[brackets]] and ]] inside it, so that levels matter",
    "", "1", "0", "01", "1a", "9lives", "-1", "1.5", "1e5", "0x10", "a b", "a-b", "a.b", "a\"b", "a'b", "a\\b", "a\nb", "\n", "a\tb",
    "\r", "\r\n", "\u{e9}", "\u{65e5}\u{672c}", "\u{1F600}", "a\0b", "\0", "\u{7f}", "]]", "--", "[", "]=]", "$", "a=b", "#", " ",
    " lead", "trail ", "\u{2028}", "\u{feff}", ":", "a:b", "a: b", "a #b", "{", "}", ",", "~", "null", "yes", "no", "on", "Infinity",
    "NaN", "inf", ".inf", "\\n", "\\", "\"", "'", "a\u{0}1", "\u{1}2", "end ",
];

const STR_PIECES: [&str; 74] = [
    "a", "hello", "Hello World", "x1", "0", "7", "42", " ", "  ", "\n", "\r", "\r\n", "\t", "\0", "\u{1}", "\u{7}", "\u{8}", "\u{b}",
    "\u{c}", "\u{1b}", "\u{1f}", "\u{7f}", "\"", "'", "\\", "\\\\", "\\n", "\\065", "\\x41", "\\u{41}", "\\z", "\\\"", "]]", "]=]",
    "]", "[[", "[=[", "--", "--[[", "${", "{", "}", "%", "`", "#", ":", ": ", ", ", "-", "- ", "=", "/", "*/", "//", "\u{e9}",
    "\u{fc}", "\u{3bb}", "\u{20ac}", "\u{4e2d}", "\u{1F600}", "\u{10FFFF}", "\u{2028}", "\u{2029}", "\u{feff}", "\u{80}", "\u{85}",
    "\u{a0}", "\u{fffd}", "\u{ffff}", "\u{d7ff}", "end", "nil", "true", "null",
];

pub fn awkward_keys() -> &'static [&'static str] {
    &AWKWARD_KEYS
}

pub fn gen_string(t: &mut Tape) -> String {
    match t.weighted(&[10, 50, 6, 6, 3]) {
        0 => (*t.pick(&["", "a", "text", "some value", "darklua", "1", "true"])).to_string(),
        1 => {
            let n = 1 + t.choose(5);
            let mut s = String::new();
            for _ in 0..n {
                s.push_str(*t.pick(&STR_PIECES));
            }
            s
        }
        2 => {
            // long single line (the dense generator switches to a long bracket at 60 bytes when
            // nothing needs a quoted string)
            let mut s = String::new();
            let words = ["lorem", "ipsum", "]]", "dolor", "]=]", "sit", "amet", "]", "--", "x", "]=", "]=="];
            while s.len() < 58 + t.choose(12) {
                s.push_str(*t.pick(&words));
                s.push(' ');
            }
            match t.choose(6) {
                0 => s.push(']'),
                1 => s.insert(0, '\n'),
                2 => s.push_str("\u{e9}"),
                3 => {
                    s.pop();
                }
                _ => {}
            }
            s
        }
        3 => {
            // many lines
            let lines = 5 + t.choose(5);
            let mut s = String::new();
            if t.bool(60) {
                s.push('\n');
            }
            for i in 0..lines {
                s.push_str(*t.pick(&["line", "]]", "", "a b", "]=]", "x = 1", "--", "]"]));
                if i + 1 < lines || t.bool(128) {
                    s.push('\n');
                }
            }
            if t.bool(40) {
                s.push('\n');
            }
            if t.bool(30) {
                s.push('\r');
            }
            s
        }
        _ => {
            // every byte class: a run of arbitrary scalar values
            let n = 1 + t.choose(6);
            let mut s = String::new();
            for _ in 0..n {
                let c = match t.choose(4) {
                    0 => t.choose(0x80) as u32,
                    1 => 0x80 + t.choose(0x780) as u32,
                    2 => 0x800 + t.choose(0xF800) as u32,
                    _ => 0x10000 + t.choose(0x10000) as u32 * 16,
                };
                s.push(char::from_u32(c).unwrap_or('\u{fffd}'));
            }
            s
        }
    }
}

fn gen_key_string(t: &mut Tape, avoid: &Avoid) -> String {
    let s = gen_key_string_raw(t);
    apply_string_avoid(s, avoid)
}

fn gen_key_string_raw(t: &mut Tape) -> String {
    match t.weighted(&[22, 22, 6, 40, 10]) {
        0 => (*t.pick(&IDENT_KEYS)).to_string(),
        1 => (*t.pick(&LUA_KEYWORDS)).to_string(),
        2 => (*t.pick(&EXTRA_KEYWORD_KEYS)).to_string(),
        3 => (*t.pick(&AWKWARD_KEYS)).to_string(),
        _ => {
            let mut s = gen_string(t);
            // implicit YAML keys are limited to 1024 characters, keep keys short everywhere
            while s.chars().count() > 40 {
                s.pop();
            }
            s
        }
    }
}

fn digits(t: &mut Tape, n: usize) -> String {
    let mut s = String::new();
    for i in 0..n {
        let d = if i == 0 { 1 + t.choose(9) } else { t.choose(10) };
        s.push((b'0' + d as u8) as char);
    }
    s
}

pub fn gen_num(t: &mut Tape, fmt: Fmt, avoid: &Avoid) -> Num {
    let float_only = t.bool(50);
    let neg = t.bool(70);
    match t.weighted(&[14, 10, 22, 10, 22, 10, 6, 6]) {
        0 => Num::dec(neg, &t.choose(21).to_string(), 0, float_only),
        1 => {
            let n = 1 + t.choose(9);
            Num::dec(neg, &digits(t, n), 0, float_only)
        }
        2 => {
            // around the powers of two where integer conversions go wrong
            let base: i128 = *t.pick(&[1i128 << 53, 1i128 << 63, 1i128 << 64, 1i128 << 31, 1i128 << 32, (1i128 << 53) * 10, 1i128 << 62]);
            let d = t.int(-3, 3) as i128;
            let v = base + d;
            Num::dec(neg, &v.to_string(), 0, float_only)
        }
        3 => {
            let n = 16 + t.choose(6);
            Num::dec(neg, &digits(t, n), 0, float_only)
        }
        4 => {
            let n = 1 + t.choose(20);
            Num::dec(neg, &digits(t, n), t.int(-30, 30) as i32, float_only)
        }
        5 => {
            // extremes (all finite as doubles; tiny ones may round to zero)
            let (d, e) = *t.pick(&[
                ("1", 308),
                ("17976931348623157", 292),
                ("5", -324),
                ("49406564584124654", -340),
                ("22250738585072014", -324),
                ("22250738585072011", -324),
                ("1", -400),
                ("24703282292062327", -340),
                ("24703282292062328", -340),
                ("9007199254740993", 0),
                ("9007199254740992", 3),
                ("1", 22),
                ("1", 23),
                ("123456789012345678901234567890", 0),
                ("1", -7),
                ("1", 21),
            ]);
            Num::dec(neg, d, e, float_only)
        }
        6 => Num::dec(neg, "0", 0, float_only),
        _ => {
            let non_finite_ok = match fmt {
                Fmt::Json => false,
                Fmt::Json5 => !avoid.json_non_finite,
                Fmt::Yaml | Fmt::Toml => true,
            };
            if !non_finite_ok {
                Num::dec(neg, "15", -1, float_only)
            } else if t.bool(90) {
                Num::NaN
            } else {
                Num::Inf { neg }
            }
        }
    }
}

struct GenState {
    budget: i32,
}

fn key_lua_identity(k: &Key) -> String {
    match k {
        Key::Str(s) => format!("s{}", s),
        Key::Int(i) => format!("n{}", i),
        Key::Bool(b) => format!("b{}", b),
    }
}

fn gen_node(t: &mut Tape, fmt: Fmt, avoid: &Avoid, depth: usize, st: &mut GenState, in_array: bool) -> Val {
    st.budget -= 1;
    let containers = depth < 5 && st.budget > 0;
    let nulls = fmt != Fmt::Toml;
    let w_null = if nulls { if in_array { 14 } else { 8 } } else { 0 };
    let w = [w_null, 8, 26, 26, if containers { 14 } else { 0 }, if containers { 18 } else { 0 }];
    match t.weighted(&w) {
        0 => Val::Null,
        1 => Val::Bool(t.bool(128)),
        2 => Val::Num(gen_num(t, fmt, avoid)),
        3 => Val::Str(apply_string_avoid(gen_string(t), avoid)),
        4 => gen_arr(t, fmt, avoid, depth, st),
        _ => gen_obj(t, fmt, avoid, depth, st),
    }
}

fn gen_arr(t: &mut Tape, fmt: Fmt, avoid: &Avoid, depth: usize, st: &mut GenState) -> Val {
    let n = t.weighted(&[3, 3, 4, 4, 2, 1]);
    let all_tables = fmt == Fmt::Toml && t.bool(100);
    let mut items = vec![];
    for _ in 0..n {
        if all_tables && depth < 5 {
            // arrays of tables
            items.push(gen_obj(t, fmt, avoid, depth + 1, st));
        } else {
            items.push(gen_node(t, fmt, avoid, depth + 1, st, true));
        }
    }
    Val::Arr(items)
}

fn gen_obj(t: &mut Tape, fmt: Fmt, avoid: &Avoid, depth: usize, st: &mut GenState) -> Val {
    let n = if depth == 0 { 1 + t.choose(5) } else { t.weighted(&[3, 4, 4, 3, 1]) };
    let mut entries: Vec<(Key, Val)> = vec![];
    let mut seen = std::collections::BTreeSet::new();
    for _ in 0..n {
        let k = if fmt == Fmt::Yaml && t.bool(24) {
            if t.bool(80) {
                Key::Bool(t.bool(128))
            } else {
                Key::Int(*t.pick(&[1i64, 2, 3, 0, -1, 10, 100, 9007199254740993, -5]))
            }
        } else {
            Key::Str(gen_key_string(t, avoid))
        };
        if !seen.insert(key_lua_identity(&k)) {
            continue;
        }
        let v = gen_node(t, fmt, avoid, depth + 1, st, false);
        entries.push((k, v));
    }
    Val::Obj(entries)
}

pub fn gen_value(t: &mut Tape, fmt: Fmt, avoid: &Avoid) -> Val {
    let mut st = GenState { budget: 40 };
    match fmt {
        Fmt::Toml => gen_obj(t, fmt, avoid, 0, &mut st),
        _ => match t.weighted(&[70, 20, 10]) {
            0 => gen_obj(t, fmt, avoid, 0, &mut st),
            1 => gen_arr(t, fmt, avoid, 0, &mut st),
            _ => {
                st.budget = 0;
                gen_node(t, fmt, avoid, 0, &mut st, false)
            }
        },
    }
}

// ------------------------------------------------------------------------------ number spelling

/// features of a spelled document that the oracle needs to know
#[derive(Clone, Debug, Default)]
pub struct DocInfo {
    /// an integer outside the range the format's parser represents (u64 / i64) was written
    /// without fraction or exponent: the parser may reject the whole document
    pub wide_int_spelling: bool,
    pub features: Vec<&'static str>,
}

impl DocInfo {
    fn feat(&mut self, f: &'static str) {
        if !self.features.contains(&f) {
            self.features.push(f);
        }
    }
}

struct NumStyle {
    plus: bool,
    lead_dot: bool,
    trail_dot: bool,
    underscores: bool,
    /// radix prefixes allowed for non-negative integers
    hex: bool,
    hex_upper_x: bool,
    neg_hex: bool,
    octal: bool,
    binary: bool,
    /// largest magnitudes an integer spelling may have
    max_pos: u128,
    max_neg: u128,
    wide_ok: bool,
}

fn style_for(fmt: Fmt, avoid: &Avoid) -> NumStyle {
    match fmt {
        Fmt::Json => NumStyle {
            plus: false,
            lead_dot: false,
            trail_dot: false,
            underscores: false,
            hex: false,
            hex_upper_x: false,
            neg_hex: false,
            octal: false,
            binary: false,
            max_pos: u64::MAX as u128,
            max_neg: 1u128 << 63,
            wide_ok: !avoid.wide_int_spelling,
        },
        Fmt::Json5 => NumStyle {
            plus: true,
            lead_dot: true,
            trail_dot: true,
            underscores: false,
            hex: true,
            hex_upper_x: true,
            neg_hex: true,
            octal: false,
            binary: false,
            max_pos: u64::MAX as u128,
            max_neg: 1u128 << 63,
            wide_ok: !avoid.wide_int_spelling,
        },
        Fmt::Yaml => NumStyle {
            plus: true,
            lead_dot: true,
            trail_dot: true,
            underscores: false,
            hex: true,
            hex_upper_x: false,
            neg_hex: false,
            octal: true,
            binary: false,
            max_pos: u64::MAX as u128,
            max_neg: 1u128 << 63,
            wide_ok: !avoid.wide_int_spelling,
        },
        Fmt::Toml => NumStyle {
            plus: true,
            lead_dot: false,
            trail_dot: false,
            underscores: true,
            hex: true,
            hex_upper_x: false,
            neg_hex: false,
            octal: true,
            binary: true,
            max_pos: i64::MAX as u128,
            max_neg: 1u128 << 63,
            wide_ok: false,
        },
    }
}

fn with_underscores(t: &mut Tape, digits: &str, enabled: bool) -> String {
    if !enabled || digits.len() < 2 || !t.bool(60) {
        return digits.to_string();
    }
    let mut out = String::new();
    let b = digits.as_bytes();
    for (i, c) in b.iter().enumerate() {
        out.push(*c as char);
        if i + 1 < b.len() && t.bool(60) {
            out.push('_');
        }
    }
    out
}

fn spell_exponent(t: &mut Tape, e: i64) -> String {
    let mut s = String::new();
    s.push(if t.bool(90) { 'E' } else { 'e' });
    if e < 0 {
        s.push('-');
    } else if t.bool(90) {
        s.push('+');
    }
    let d = e.unsigned_abs().to_string();
    if t.bool(40) {
        s.push('0');
    }
    s.push_str(&d);
    s
}

fn spell_num(t: &mut Tape, n: &Num, fmt: Fmt, avoid: &Avoid, info: &mut DocInfo) -> String {
    let st = style_for(fmt, avoid);
    match n {
        Num::NaN => match fmt {
            Fmt::Json | Fmt::Json5 => {
                info.feat("num:nan");
                (*t.pick(&["NaN", "+NaN", "-NaN"])).to_string()
            }
            Fmt::Yaml => {
                info.feat("num:nan");
                (*t.pick(&[".nan", ".NaN", ".NAN"])).to_string()
            }
            Fmt::Toml => {
                info.feat("num:nan");
                (*t.pick(&["nan", "+nan", "-nan"])).to_string()
            }
        },
        Num::Inf { neg } => {
            info.feat("num:inf");
            match fmt {
                Fmt::Json | Fmt::Json5 => {
                    if *neg {
                        "-Infinity".into()
                    } else {
                        (*t.pick(&["Infinity", "+Infinity"])).to_string()
                    }
                }
                Fmt::Yaml => {
                    if *neg {
                        (*t.pick(&["-.inf", "-.Inf", "-.INF"])).to_string()
                    } else {
                        (*t.pick(&[".inf", ".Inf", ".INF", "+.inf", "+.INF"])).to_string()
                    }
                }
                Fmt::Toml => {
                    if *neg {
                        "-inf".into()
                    } else {
                        (*t.pick(&["inf", "+inf"])).to_string()
                    }
                }
            }
        }
        Num::Dec { neg, digits, exp, float_only } => {
            let int_digits = n.int_digits();
            let mag = n.int_magnitude();
            let in_range = match mag {
                Some(m) => {
                    if *neg {
                        m <= st.max_neg
                    } else {
                        m <= st.max_pos
                    }
                }
                None => false,
            };
            let int_ok = !*float_only && int_digits.is_some() && (in_range || st.wide_ok);
            let radix_ok = !*float_only && in_range && mag.is_some() && (st.hex || st.octal || st.binary) && (!*neg || st.neg_hex);
            let fixed_ok = *exp <= 25 && *exp >= -30;
            let w = [if int_ok { 30 } else { 0 }, if radix_ok { 12 } else { 0 }, if fixed_ok { 25 } else { 0 }, 25];
            let sign = if *neg {
                "-"
            } else if st.plus && t.bool(40) {
                "+"
            } else {
                ""
            };
            match t.weighted(&w) {
                0 => {
                    let d = int_digits.unwrap();
                    if !in_range {
                        info.wide_int_spelling = true;
                        info.feat("num:wide-int");
                    } else if mag.unwrap_or(0) > (1 << 53) {
                        info.feat("num:int>2^53");
                    }
                    format!("{}{}", sign, with_underscores(t, &d, st.underscores))
                }
                1 => {
                    let m = mag.unwrap();
                    let mut forms: Vec<u32> = vec![];
                    if st.hex {
                        forms.push(16);
                    }
                    if st.octal {
                        forms.push(8);
                    }
                    if st.binary {
                        forms.push(2);
                    }
                    let radix = *t.pick(&forms);
                    info.feat("num:radix");
                    // a sign is only written where the format allows one before a prefix
                    let sign = if *neg {
                        "-"
                    } else if fmt == Fmt::Json5 && t.bool(30) {
                        "+"
                    } else {
                        ""
                    };
                    match radix {
                        16 => {
                            let upper = t.bool(128);
                            let body = if upper { format!("{:X}", m) } else { format!("{:x}", m) };
                            let body = if t.bool(40) && fmt != Fmt::Json5 { format!("00{}", body) } else { body };
                            let x = if st.hex_upper_x && t.bool(60) { "0X" } else { "0x" };
                            format!("{}{}{}", sign, x, with_underscores(t, &body, st.underscores))
                        }
                        8 => format!("{}0o{}", sign, with_underscores(t, &format!("{:o}", m), st.underscores)),
                        _ => format!("{}0b{}", sign, with_underscores(t, &format!("{:b}", m), st.underscores)),
                    }
                }
                2 => {
                    info.feat("num:fixed");
                    let body = if *exp >= 0 {
                        let d = int_digits.clone().unwrap_or_else(|| format!("{}{}", digits, "0".repeat(*exp as usize)));
                        let zeros = t.choose(3);
                        if zeros == 0 && st.trail_dot && t.bool(128) {
                            format!("{}.", d)
                        } else {
                            format!("{}.{}", with_underscores(t, &d, st.underscores), "0".repeat(zeros.max(1)))
                        }
                    } else {
                        let point = digits.len() as i64 + *exp as i64;
                        let extra = "0".repeat(t.choose(3));
                        if point > 0 {
                            let (a, b) = digits.split_at(point as usize);
                            format!("{}.{}{}", with_underscores(t, a, st.underscores), b, extra)
                        } else {
                            let zeros = "0".repeat((-point) as usize);
                            if st.lead_dot && t.bool(100) {
                                format!(".{}{}{}", zeros, digits, extra)
                            } else {
                                format!("0.{}{}{}", zeros, digits, extra)
                            }
                        }
                    };
                    format!("{}{}", sign, body)
                }
                _ => {
                    info.feat("num:exponent");
                    let len = digits.len();
                    // digits before the point: 1..=len, or 0 ("0.ddd")
                    let p = if t.bool(40) { 0 } else { 1 + t.choose(len) };
                    let e = *exp as i64 + (len - p) as i64;
                    let mant = if p == 0 {
                        if st.lead_dot && t.bool(80) {
                            format!(".{}", digits)
                        } else {
                            format!("0.{}", digits)
                        }
                    } else if p == len {
                        match t.choose(3) {
                            0 => digits.clone(),
                            1 => format!("{}.0", digits),
                            _ => {
                                if st.trail_dot {
                                    format!("{}.", digits)
                                } else {
                                    digits.clone()
                                }
                            }
                        }
                    } else {
                        format!("{}.{}", &digits[..p], &digits[p..])
                    };
                    format!("{}{}{}", sign, mant, spell_exponent(t, e))
                }
            }
        }
    }
}

// ------------------------------------------------------------------------------ JSON / JSON5

fn hex4(t: &mut Tape, v: u32) -> String {
    if t.bool(128) {
        format!("{:04X}", v)
    } else {
        format!("{:04x}", v)
    }
}

fn json_u_escape(t: &mut Tape, c: char) -> String {
    let mut buf = [0u16; 2];
    let units = c.encode_utf16(&mut buf);
    let mut s = String::new();
    for u in units.iter() {
        s.push_str("\\u");
        s.push_str(&hex4(t, *u as u32));
    }
    s
}

fn json_string(t: &mut Tape, s: &str) -> String {
    let mut out = String::from("\"");
    for c in s.chars() {
        match c {
            '"' => out.push_str("\\\""),
            '\\' => out.push_str("\\\\"),
            '\u{8}' | '\u{c}' | '\n' | '\r' | '\t' if t.bool(180) => out.push_str(match c {
                '\u{8}' => "\\b",
                '\u{c}' => "\\f",
                '\n' => "\\n",
                '\r' => "\\r",
                _ => "\\t",
            }),
            c if (c as u32) < 0x20 => out.push_str(&json_u_escape(t, c)),
            '/' if t.bool(80) => out.push_str("\\/"),
            c => {
                if t.bool(24) {
                    out.push_str(&json_u_escape(t, c));
                } else {
                    out.push(c);
                }
            }
        }
    }
    out.push('"');
    out
}

fn is_json5_line_terminator(c: char) -> bool {
    matches!(c, '\n' | '\r' | '\u{2028}' | '\u{2029}')
}

fn json5_string(t: &mut Tape, s: &str, info: &mut DocInfo) -> String {
    let q = if t.bool(128) { '\'' } else { '"' };
    if q == '\'' {
        info.feat("json5:single-quoted");
    }
    let mut out = String::new();
    out.push(q);
    let chars: Vec<char> = s.chars().collect();
    for (i, &c) in chars.iter().enumerate() {
        let next_is_digit = chars.get(i + 1).map(|n| n.is_ascii_digit()).unwrap_or(false);
        if t.bool(10) {
            info.feat("json5:line-continuation");
            out.push('\\');
            out.push_str(*t.pick(&["\n", "\r\n", "\r", "\u{2028}", "\u{2029}"]));
        }
        let cp = c as u32;
        if c == q {
            out.push('\\');
            out.push(c);
        } else if c == '\\' {
            out.push_str("\\\\");
        } else if c == '\n' || c == '\r' {
            match t.choose(3) {
                0 => out.push_str(if c == '\n' { "\\n" } else { "\\r" }),
                1 => out.push_str(&format!("\\x{:02X}", cp)),
                _ => out.push_str(&json_u_escape(t, c)),
            }
        } else if c == '\0' {
            if !next_is_digit && t.bool(150) {
                info.feat("json5:\\0");
                out.push_str("\\0");
            } else {
                out.push_str("\\x00");
            }
        } else if cp < 0x20 || cp == 0x7f {
            let short = match c {
                '\u{8}' => Some("\\b"),
                '\t' => Some("\\t"),
                '\u{b}' => Some("\\v"),
                '\u{c}' => Some("\\f"),
                _ => None,
            };
            match (t.choose(4), short) {
                // raw control characters are allowed in JSON5 strings
                (0, _) => out.push(c),
                (1, Some(sh)) => out.push_str(sh),
                (2, _) => out.push_str(&format!("\\x{:02x}", cp)),
                _ => out.push_str(&json_u_escape(t, c)),
            }
        } else {
            match t.weighted(&[200, 14, 14, 14]) {
                0 => out.push(c),
                1 => out.push_str(&json_u_escape(t, c)),
                2 if cp <= 0xff => {
                    info.feat("json5:\\x");
                    out.push_str(&format!("\\x{:02X}", cp))
                }
                3 if !matches!(c, '0'..='9' | 'x' | 'u' | 'b' | 't' | 'n' | 'v' | 'f' | 'r') && !is_json5_line_terminator(c) => {
                    // NonEscapeCharacter: the character itself
                    info.feat("json5:identity-escape");
                    out.push('\\');
                    out.push(c);
                }
                _ => out.push(c),
            }
        }
    }
    out.push(q);
    out
}

fn json5_bare_key_ok(s: &str) -> bool {
    let mut it = s.chars();
    let Some(f) = it.next() else { return false };
    let start = |c: char| c == '$' || c == '_' || c.is_ascii_alphabetic() || matches!(c, '\u{e9}' | '\u{fc}' | '\u{3bb}' | '\u{4e2d}' | '\u{65e5}' | '\u{672c}');
    start(f) && it.all(|c| start(c) || c.is_ascii_digit())
}

struct JsonW<'a, 'b> {
    t: &'a mut Tape<'b>,
    fmt: Fmt,
    avoid: &'a Avoid,
    info: DocInfo,
    out: String,
    pretty: bool,
}

impl<'a, 'b> JsonW<'a, 'b> {
    fn ws(&mut self) {
        if self.fmt == Fmt::Json {
            if self.t.bool(50) {
                let w = *self.t.pick(&[" ", "  ", "\t", "\n", "\r\n", "\r", " \n "]);
                self.out.push_str(w);
            }
        } else if self.t.bool(60) {
            let w = *self.t.pick(&[
                " ",
                "\t",
                "\n",
                "\r\n",
                "\u{b}",
                "\u{c}",
                "\u{a0}",
                "\u{feff}",
                "\u{2028}",
                "\u{2003}",
                " // comment\n",
                "/* c */",
                "/* multi\nline * / */",
                "//\r",
                " /**/ ",
            ]);
            if w.contains('/') {
                self.info.feat("json5:comment");
            }
            self.out.push_str(w);
        }
    }
    fn nl(&mut self, depth: usize) {
        if self.pretty {
            self.out.push('\n');
            for _ in 0..depth {
                self.out.push_str("  ");
            }
        }
    }
    fn key(&mut self, k: &Key) {
        let Key::Str(s) = k else { unreachable!("non-string keys are YAML only") };
        if self.fmt == Fmt::Json {
            let text = json_string(self.t, s);
            self.out.push_str(&text);
        } else if json5_bare_key_ok(s) && self.t.bool(150) {
            self.info.feat("json5:bare-key");
            if self.t.bool(30) {
                // unicode escape inside an identifier name
                let mut chars = s.chars();
                let f = chars.next().unwrap();
                let esc = json_u_escape(self.t, f);
                self.out.push_str(&esc);
                self.out.push_str(chars.as_str());
                self.info.feat("json5:escaped-identifier");
            } else {
                self.out.push_str(s);
            }
        } else {
            let text = if self.t.bool(100) { json_string(self.t, s) } else { json5_string(self.t, s, &mut self.info) };
            self.out.push_str(&text);
        }
    }
    fn value(&mut self, v: &Val, depth: usize) {
        match v {
            Val::Null => self.out.push_str("null"),
            Val::Bool(b) => self.out.push_str(if *b { "true" } else { "false" }),
            Val::Num(n) => {
                let s = spell_num(self.t, n, self.fmt, self.avoid, &mut self.info);
                self.out.push_str(&s);
            }
            Val::Str(s) => {
                let text = if self.fmt == Fmt::Json || self.t.bool(80) { json_string(self.t, s) } else { json5_string(self.t, s, &mut self.info) };
                self.out.push_str(&text);
            }
            Val::Arr(a) => {
                self.out.push('[');
                for (i, x) in a.iter().enumerate() {
                    self.nl(depth + 1);
                    self.ws();
                    self.value(x, depth + 1);
                    self.ws();
                    if i + 1 < a.len() {
                        self.out.push(',');
                    } else if self.fmt == Fmt::Json5 && self.t.bool(100) {
                        self.info.feat("json5:trailing-comma");
                        self.out.push(',');
                    }
                }
                if !a.is_empty() {
                    self.nl(depth);
                }
                self.ws();
                self.out.push(']');
            }
            Val::Obj(o) => {
                self.out.push('{');
                for (i, (k, x)) in o.iter().enumerate() {
                    self.nl(depth + 1);
                    self.ws();
                    self.key(k);
                    self.ws();
                    self.out.push(':');
                    self.ws();
                    self.value(x, depth + 1);
                    self.ws();
                    if i + 1 < o.len() {
                        self.out.push(',');
                    } else if self.fmt == Fmt::Json5 && self.t.bool(100) {
                        self.info.feat("json5:trailing-comma");
                        self.out.push(',');
                    }
                }
                if !o.is_empty() {
                    self.nl(depth);
                }
                self.ws();
                self.out.push('}');
            }
        }
    }
}

fn write_json(t: &mut Tape, v: &Val, fmt: Fmt, avoid: &Avoid) -> (String, DocInfo) {
    let pretty = t.bool(100);
    let mut w = JsonW { t, fmt, avoid, info: DocInfo::default(), out: String::new(), pretty };
    w.ws();
    w.value(v, 0);
    w.ws();
    if w.t.bool(128) {
        w.out.push('\n');
    }
    (w.out, w.info)
}

// ------------------------------------------------------------------------------ YAML

/// characters libyaml accepts unescaped inside a scalar (its `IS_PRINTABLE`), minus the line
/// breaks it folds and the byte order mark
fn yaml_raw_ok(c: char) -> bool {
    let cp = c as u32;
    matches!(cp, 0x20..=0x7e | 0xa0..=0xd7ff | 0xe000..=0xfffd | 0x10000..=0x10ffff) && !matches!(cp, 0x2028 | 0x2029 | 0xfeff)
}

const YAML_RESERVED: [&str; 14] = ["null", "true", "false", "yes", "no", "on", "off", "y", "n", "inf", "nan", "infinity", "nil", "none"];

fn yaml_plain_ok(s: &str) -> bool {
    let mut it = s.chars();
    let Some(f) = it.next() else { return false };
    let letter = |c: char| c.is_ascii_alphabetic() || c == '_' || matches!(c, '\u{e9}' | '\u{fc}' | '\u{3bb}' | '\u{4e2d}' | '\u{65e5}' | '\u{672c}' | '\u{20ac}');
    if !letter(f) {
        return false;
    }
    if !s.chars().all(|c| letter(c) || c.is_ascii_digit() || matches!(c, ' ' | '-' | '.' | '/' | '$' | '%' | '=' | '*')) {
        return false;
    }
    if s.ends_with(' ') {
        return false;
    }
    !YAML_RESERVED.contains(&s.to_ascii_lowercase().as_str())
}

fn yaml_single_ok(s: &str) -> bool {
    s.chars().all(|c| yaml_raw_ok(c) || c == '\t')
}

fn yaml_double(t: &mut Tape, s: &str) -> String {
    let mut out = String::from("\"");
    for c in s.chars() {
        let cp = c as u32;
        let named = match c {
            '\0' => Some("\\0"),
            '\u{7}' => Some("\\a"),
            '\u{8}' => Some("\\b"),
            '\t' => Some("\\t"),
            '\n' => Some("\\n"),
            '\u{b}' => Some("\\v"),
            '\u{c}' => Some("\\f"),
            '\r' => Some("\\r"),
            '\u{1b}' => Some("\\e"),
            '\u{85}' => Some("\\N"),
            '\u{a0}' => Some("\\_"),
            '\u{2028}' => Some("\\L"),
            '\u{2029}' => Some("\\P"),
            _ => None,
        };
        if c == '"' {
            out.push_str("\\\"");
        } else if c == '\\' {
            out.push_str("\\\\");
        } else if let (Some(n), true) = (named, t.bool(170)) {
            out.push_str(n);
        } else if !yaml_raw_ok(c) || t.bool(20) {
            if c == '\t' && t.bool(128) {
                out.push('\t');
            } else if c == ' ' {
                out.push_str("\\ ");
            } else if c == '/' {
                out.push_str("\\/");
            } else if cp <= 0xff && t.bool(128) {
                out.push_str(&format!("\\x{:02x}", cp));
            } else if cp <= 0xffff && t.bool(160) {
                out.push_str(&format!("\\u{:04X}", cp));
            } else {
                out.push_str(&format!("\\U{:08x}", cp));
            }
        } else {
            out.push(c);
        }
    }
    out.push('"');
    out
}

/// single-line scalar for a string (flow-safe)
fn yaml_flow_string(t: &mut Tape, s: &str, info: &mut DocInfo) -> String {
    let plain = yaml_plain_ok(s);
    let single = yaml_single_ok(s);
    match t.weighted(&[if plain { 40 } else { 0 }, if single { 30 } else { 0 }, 30]) {
        0 => {
            info.feat("yaml:plain");
            s.to_string()
        }
        1 => {
            info.feat("yaml:single-quoted");
            format!("'{}'", s.replace('\'', "''"))
        }
        _ => {
            info.feat("yaml:double-quoted");
            yaml_double(t, s)
        }
    }
}

/// body / trailing-newline split when the string can be written as a literal block scalar
fn yaml_block_parts(s: &str) -> Option<(Vec<&str>, usize)> {
    let body = s.trim_end_matches('\n');
    let trailing = s.len() - body.len();
    if body.is_empty() {
        return None;
    }
    let lines: Vec<&str> = body.split('\n').collect();
    if lines[0].is_empty() {
        return None;
    }
    for l in &lines {
        if !l.chars().all(yaml_raw_ok) {
            return None;
        }
        if l.starts_with(' ') || l.ends_with(' ') && l.trim().is_empty() {
            return None;
        }
    }
    Some((lines, trailing))
}

struct YamlW<'a, 'b> {
    t: &'a mut Tape<'b>,
    avoid: &'a Avoid,
    info: DocInfo,
}

impl<'a, 'b> YamlW<'a, 'b> {
    fn null(&mut self) -> String {
        (*self.t.pick(&["~", "null", "Null", "NULL"])).to_string()
    }
    fn boolean(&mut self, b: bool) -> String {
        if b {
            (*self.t.pick(&["true", "True", "TRUE"])).to_string()
        } else {
            (*self.t.pick(&["false", "False", "FALSE"])).to_string()
        }
    }
    fn key(&mut self, k: &Key) -> String {
        match k {
            Key::Str(s) => yaml_flow_string(self.t, s, &mut self.info),
            Key::Int(i) => {
                self.info.feat("yaml:int-key");
                i.to_string()
            }
            Key::Bool(b) => {
                self.info.feat("yaml:bool-key");
                self.boolean(*b)
            }
        }
    }
    fn flow(&mut self, v: &Val) -> String {
        match v {
            Val::Null => self.null(),
            Val::Bool(b) => self.boolean(*b),
            Val::Num(n) => spell_num(self.t, n, Fmt::Yaml, self.avoid, &mut self.info),
            Val::Str(s) => yaml_flow_string(self.t, s, &mut self.info),
            Val::Arr(a) => {
                if !a.is_empty() {
                    self.info.feat("yaml:flow-seq");
                }
                let mut s = String::from("[");
                for (i, x) in a.iter().enumerate() {
                    if i > 0 {
                        s.push_str(", ");
                    }
                    s.push_str(&self.flow(x));
                }
                if !a.is_empty() && self.t.bool(40) {
                    s.push_str(", ");
                }
                s.push(']');
                s
            }
            Val::Obj(o) => {
                if !o.is_empty() {
                    self.info.feat("yaml:flow-map");
                }
                let mut s = String::from("{");
                for (i, (k, x)) in o.iter().enumerate() {
                    if i > 0 {
                        s.push_str(", ");
                    }
                    let kt = self.key(k);
                    let quoted = kt.starts_with('"');
                    s.push_str(&kt);
                    if quoted && self.t.bool(80) {
                        s.push(':');
                    } else {
                        s.push_str(": ");
                    }
                    s.push_str(&self.flow(x));
                }
                s.push('}');
                s
            }
        }
    }
    fn comment(&mut self) -> &'static str {
        if self.t.bool(30) {
            self.info.feat("yaml:comment");
            " # note: x"
        } else {
            ""
        }
    }
    /// block scalar: header text and the (unindented) content lines
    fn block_scalar(&mut self, s: &str) -> Option<(String, Vec<String>)> {
        let (lines, trailing) = yaml_block_parts(s)?;
        let folded = lines.len() == 1 && trailing <= 1 && self.t.bool(80);
        let mut header = String::from(if folded { ">" } else { "|" });
        match trailing {
            0 => header.push('-'),
            1 => {
                if !folded && self.t.bool(60) {
                    header.push('+');
                }
            }
            _ => header.push('+'),
        }
        let mut content: Vec<String> = lines.iter().map(|l| l.to_string()).collect();
        for _ in 1..trailing.max(1) {
            content.push(String::new());
        }
        self.info.feat(if folded { "yaml:folded-block" } else { "yaml:literal-block" });
        Some((header, content))
    }
    /// lines of a node in block context, relative to its own indentation
    fn block(&mut self, v: &Val) -> Vec<String> {
        match v {
            Val::Obj(o) if !o.is_empty() && self.t.bool(200) => {
                self.info.feat("yaml:block-map");
                let mut lines = vec![];
                for (k, x) in o {
                    let kt = self.key(k);
                    let is_container = matches!(x, Val::Arr(a) if !a.is_empty()) || matches!(x, Val::Obj(m) if !m.is_empty());
                    if is_container && self.t.bool(190) {
                        let child = self.block(x);
                        if child.len() == 1 && (child[0].starts_with('[') || child[0].starts_with('{')) {
                            lines.push(format!("{}: {}", kt, child[0]));
                            continue;
                        }
                        let c = self.comment();
                        lines.push(format!("{}:{}", kt, c));
                        let is_seq = child[0].starts_with("- ") || child[0] == "-";
                        let n = if is_seq && self.t.bool(80) { 0 } else { 1 + self.t.choose(4) };
                        for l in child {
                            lines.push(indent_line(&l, n));
                        }
                        continue;
                    }
                    if let Val::Str(s) = x {
                        if self.t.bool(110) {
                            if let Some((header, content)) = self.block_scalar(s) {
                                lines.push(format!("{}: {}", kt, header));
                                let n = 1 + self.t.choose(4);
                                for l in content {
                                    lines.push(indent_line(&l, n));
                                }
                                continue;
                            }
                        }
                    }
                    if matches!(x, Val::Null) && self.t.bool(100) {
                        self.info.feat("yaml:empty-null");
                        lines.push(format!("{}:", kt));
                        continue;
                    }
                    let f = self.flow(x);
                    let c = self.comment();
                    lines.push(format!("{}: {}{}", kt, f, c));
                }
                lines
            }
            Val::Arr(a) if !a.is_empty() && self.t.bool(200) => {
                self.info.feat("yaml:block-seq");
                let mut lines = vec![];
                for x in a {
                    let is_container = matches!(x, Val::Arr(a) if !a.is_empty()) || matches!(x, Val::Obj(m) if !m.is_empty());
                    if is_container && self.t.bool(190) {
                        let child = self.block(x);
                        if self.t.bool(190) || child.len() == 1 {
                            // compact: first line after the dash
                            for (i, l) in child.iter().enumerate() {
                                if i == 0 {
                                    lines.push(format!("- {}", l));
                                } else {
                                    lines.push(indent_line(l, 2));
                                }
                            }
                        } else {
                            lines.push("-".to_string());
                            let n = 1 + self.t.choose(3);
                            for l in child {
                                lines.push(indent_line(&l, n));
                            }
                        }
                        continue;
                    }
                    if let Val::Str(s) = x {
                        if self.t.bool(110) {
                            if let Some((header, content)) = self.block_scalar(s) {
                                lines.push(format!("- {}", header));
                                let n = 1 + self.t.choose(4);
                                for l in content {
                                    lines.push(indent_line(&l, n));
                                }
                                continue;
                            }
                        }
                    }
                    if matches!(x, Val::Null) && self.t.bool(60) {
                        self.info.feat("yaml:empty-null");
                        lines.push("-".to_string());
                        continue;
                    }
                    let f = self.flow(x);
                    let c = self.comment();
                    lines.push(format!("- {}{}", f, c));
                }
                lines
            }
            other => vec![self.flow(other)],
        }
    }
}

fn indent_line(l: &str, n: usize) -> String {
    if l.is_empty() {
        String::new()
    } else {
        format!("{}{}", " ".repeat(n), l)
    }
}

fn write_yaml(t: &mut Tape, v: &Val, avoid: &Avoid) -> (String, DocInfo) {
    let mut w = YamlW { t, avoid, info: DocInfo::default() };
    let lines = w.block(v);
    let mut out = String::new();
    let start = w.t.choose(3);
    if start == 1 {
        out.push_str("---\n");
        w.info.feat("yaml:document-start");
    } else if start == 2 && lines.len() == 1 && !lines[0].contains(": ") && !lines[0].ends_with(':') && !lines[0].starts_with('-') {
        out.push_str("--- ");
        w.info.feat("yaml:document-start");
    }
    for l in &lines {
        out.push_str(l);
        out.push('\n');
    }
    if w.t.bool(40) {
        out.push_str("...\n");
    }
    (out, w.info)
}

// ------------------------------------------------------------------------------ TOML

fn toml_basic(t: &mut Tape, s: &str, multiline: bool) -> String {
    let mut out = String::new();
    let chars: Vec<char> = s.chars().collect();
    for (i, &c) in chars.iter().enumerate() {
        let cp = c as u32;
        let short = match c {
            '\u{8}' => Some("\\b"),
            '\t' => Some("\\t"),
            '\n' => Some("\\n"),
            '\u{c}' => Some("\\f"),
            '\r' => Some("\\r"),
            '\u{1b}' => Some("\\e"),
            _ => None,
        };
        if multiline && c == '\n' && t.bool(200) {
            out.push('\n');
            continue;
        }
        if multiline && !c.is_whitespace() && i > 0 && t.bool(12) {
            // line ending backslash: the newline and the following whitespace are trimmed
            out.push_str("\\\n   ");
        }
        if c == '"' {
            let neighbour_quote = (i > 0 && chars[i - 1] == '"') || chars.get(i + 1) == Some(&'"') || i + 1 == chars.len();
            if multiline && !neighbour_quote && t.bool(128) {
                out.push('"');
            } else {
                out.push_str("\\\"");
            }
        } else if c == '\\' {
            out.push_str("\\\\");
        } else if c == '\t' && t.bool(100) {
            out.push('\t');
        } else if let (Some(sh), true) = (short, t.bool(190)) {
            out.push_str(sh);
        } else if cp < 0x20 || cp == 0x7f || t.bool(20) {
            if cp <= 0xff && t.bool(60) {
                out.push_str(&format!("\\x{:02X}", cp));
            } else if cp <= 0xffff && t.bool(170) {
                out.push_str(&format!("\\u{:04x}", cp));
            } else {
                out.push_str(&format!("\\U{:08X}", cp));
            }
        } else {
            out.push(c);
        }
    }
    out
}

fn toml_literal_ok(s: &str, multiline: bool) -> bool {
    s.chars().all(|c| {
        let cp = c as u32;
        if c == '\n' {
            return multiline;
        }
        c != '\'' && (cp >= 0x20 || c == '\t') && cp != 0x7f
    })
}

fn toml_string(t: &mut Tape, s: &str, info: &mut DocInfo) -> String {
    let lit = toml_literal_ok(s, false);
    let mlit = toml_literal_ok(s, true);
    match t.weighted(&[40, if lit { 25 } else { 0 }, 20, if mlit { 15 } else { 0 }]) {
        0 => format!("\"{}\"", toml_basic(t, s, false)),
        1 => {
            info.feat("toml:literal-string");
            format!("'{}'", s)
        }
        2 => {
            info.feat("toml:multiline-basic");
            // a newline immediately after the opening delimiter is trimmed
            let lead = if t.bool(128) || s.starts_with('\n') { "\n" } else { "" };
            format!("\"\"\"{}{}\"\"\"", lead, toml_basic(t, s, true))
        }
        _ => {
            info.feat("toml:multiline-literal");
            let lead = if t.bool(128) || s.starts_with('\n') { "\n" } else { "" };
            format!("'''{}{}'''", lead, s)
        }
    }
}

fn toml_bare_ok(s: &str) -> bool {
    !s.is_empty() && s.bytes().all(|b| b.is_ascii_alphanumeric() || b == b'_' || b == b'-')
}

fn toml_key(t: &mut Tape, k: &Key, info: &mut DocInfo) -> String {
    let Key::Str(s) = k else { unreachable!("non-string keys are YAML only") };
    if toml_bare_ok(s) && t.bool(190) {
        return s.clone();
    }
    if toml_literal_ok(s, false) && t.bool(90) {
        info.feat("toml:literal-key");
        return format!("'{}'", s);
    }
    info.feat("toml:quoted-key");
    format!("\"{}\"", toml_basic(t, s, false))
}

struct TomlW<'a, 'b> {
    t: &'a mut Tape<'b>,
    avoid: &'a Avoid,
    info: DocInfo,
    out: String,
}

impl<'a, 'b> TomlW<'a, 'b> {
    fn sp(&mut self) -> &'static str {
        *self.t.pick(&[" ", "", "  ", "\t"])
    }
    fn inline(&mut self, v: &Val) -> String {
        match v {
            Val::Null => unreachable!("TOML has no null"),
            Val::Bool(b) => (if *b { "true" } else { "false" }).to_string(),
            Val::Num(n) => spell_num(self.t, n, Fmt::Toml, self.avoid, &mut self.info),
            Val::Str(s) => toml_string(self.t, s, &mut self.info),
            Val::Arr(a) => {
                let multi = self.t.bool(70);
                let mut s = String::from("[");
                for (i, x) in a.iter().enumerate() {
                    if multi {
                        s.push_str(if self.t.bool(80) { " # item\n  " } else { "\n  " });
                    } else {
                        s.push_str(self.sp());
                    }
                    s.push_str(&self.inline(x));
                    s.push_str(self.sp());
                    if i + 1 < a.len() || self.t.bool(70) {
                        s.push(',');
                    }
                }
                if multi {
                    s.push('\n');
                }
                s.push(']');
                s
            }
            Val::Obj(o) => {
                if !o.is_empty() {
                    self.info.feat("toml:inline-table");
                }
                let mut s = String::from("{");
                for (i, (k, x)) in o.iter().enumerate() {
                    s.push_str(self.sp());
                    s.push_str(&toml_key(self.t, k, &mut self.info));
                    s.push_str(self.sp());
                    s.push('=');
                    s.push_str(self.sp());
                    s.push_str(&self.inline(x));
                    s.push_str(self.sp());
                    if i + 1 < o.len() {
                        s.push(',');
                    }
                }
                s.push('}');
                s
            }
        }
    }
    fn eol(&mut self) {
        if self.t.bool(40) {
            self.info.feat("toml:comment");
            self.out.push_str(" # comment");
        }
        self.out.push_str(if self.t.bool(20) { "\r\n" } else { "\n" });
    }
    /// `prefix` = dotted key prefix inside the current table body (for dotted keys)
    fn dotted(&mut self, prefix: &str, entries: &[(Key, Val)]) {
        for (k, x) in entries {
            let kt = toml_key(self.t, k, &mut self.info);
            let full = if prefix.is_empty() {
                kt
            } else {
                let d = *self.t.pick(&[".", " . ", ". "]);
                format!("{}{}{}", prefix, d, kt)
            };
            match x {
                Val::Obj(o) if !o.is_empty() && self.t.bool(128) => {
                    self.info.feat("toml:dotted-key");
                    self.dotted(&full, o);
                }
                _ => {
                    let v = self.inline(x);
                    let a = self.sp();
                    let b = self.sp();
                    self.out.push_str(&format!("{}{}={}{}", full, a, b, v));
                    self.eol();
                }
            }
        }
    }
    /// body of the table whose header path is `path`
    fn table(&mut self, path: &[String], entries: &[(Key, Val)]) {
        // 1. entries written in the body (scalars, inline values, dotted keys)
        let mut sections: Vec<(String, &Val)> = vec![];
        for (k, x) in entries {
            let section = match x {
                Val::Obj(_) => self.t.bool(150),
                Val::Arr(a) => !a.is_empty() && a.iter().all(|e| matches!(e, Val::Obj(_))) && self.t.bool(190),
                _ => false,
            };
            if section {
                let kt = toml_key(self.t, k, &mut self.info);
                sections.push((kt, x));
            } else {
                self.dotted("", std::slice::from_ref(&(k.clone(), x.clone())));
            }
        }
        // 2. sub-tables and arrays of tables
        for (kt, x) in sections {
            let mut p = path.to_vec();
            p.push(kt);
            let sep = *self.t.pick(&[".", " . "]);
            let header = p.join(sep);
            if self.t.bool(128) {
                self.out.push('\n');
            }
            match x {
                Val::Obj(o) => {
                    self.info.feat("toml:table-header");
                    // a header may be omitted when the table only holds sub-tables (implicit)
                    let only_sections_possible = !o.is_empty() && o.iter().all(|(_, v)| matches!(v, Val::Obj(_)));
                    if only_sections_possible && self.t.bool(100) {
                        self.info.feat("toml:implicit-table");
                        // all children become headers of their own
                        for (ck, cv) in o {
                            let Val::Obj(co) = cv else { unreachable!() };
                            let ckt = toml_key(self.t, ck, &mut self.info);
                            let mut cp = p.clone();
                            cp.push(ckt);
                            self.out.push_str(&format!("[{}]", cp.join(".")));
                            self.eol();
                            self.table(&cp, co);
                        }
                    } else {
                        let a = self.sp();
                        let b = self.sp();
                        self.out.push_str(&format!("[{}{}{}]", a, header, b));
                        self.eol();
                        self.table(&p, o);
                    }
                }
                Val::Arr(a) => {
                    self.info.feat("toml:array-of-tables");
                    for e in a {
                        let Val::Obj(o) = e else { unreachable!() };
                        self.out.push_str(&format!("[[{}]]", header));
                        self.eol();
                        self.table(&p, o);
                    }
                }
                _ => unreachable!(),
            }
        }
    }
}

fn write_toml(t: &mut Tape, v: &Val, avoid: &Avoid) -> (String, DocInfo) {
    let Val::Obj(entries) = v else { unreachable!("a TOML document is a table") };
    let mut w = TomlW { t, avoid, info: DocInfo::default(), out: String::new() };
    if w.t.bool(40) {
        w.out.push_str("# generated document\n\n");
    }
    w.table(&[], entries);
    (w.out, w.info)
}

// ------------------------------------------------------------------------------ entry point

pub struct Doc {
    pub fmt: Fmt,
    pub value: Val,
    pub text: String,
    pub info: DocInfo,
}

pub fn write_doc(t: &mut Tape, v: &Val, fmt: Fmt, avoid: &Avoid) -> (String, DocInfo) {
    match fmt {
        Fmt::Json | Fmt::Json5 => write_json(t, v, fmt, avoid),
        Fmt::Yaml => write_yaml(t, v, avoid),
        Fmt::Toml => write_toml(t, v, avoid),
    }
}

pub fn gen_doc(t: &mut Tape, fmt: Fmt, avoid: &Avoid) -> Doc {
    let value = gen_value(t, fmt, avoid);
    let (text, info) = write_doc(t, &value, fmt, avoid);
    Doc { fmt, value, text, info }
}
