pub mod tape;
pub mod luasyn;
