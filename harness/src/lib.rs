pub mod tape;
pub mod engine;
pub mod dl;
pub mod luasyn;
pub mod gen;
pub mod model;
pub mod props;
