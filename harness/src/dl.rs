//! Thin wrappers around darklua's public API (the system under test).

use crate::engine::catch;
use darklua_core::{Configuration, Options, Resources};
use std::path::Path;

pub const DEFAULT_RULES: [&str; 13] = [
    "remove_spaces",
    "remove_comments",
    "compute_expression",
    "remove_unused_if_branch",
    "remove_unused_while",
    "filter_after_early_return",
    "remove_empty_do",
    "remove_unused_variable",
    "remove_method_definition",
    "convert_index_to_field",
    "remove_nil_declaration",
    "rename_variables",
    "remove_function_call_parens",
];

#[derive(Clone, Debug, PartialEq, Eq)]
pub enum DlError {
    /// darklua panicked: "file:line: message"
    Panic(String),
    /// the configuration text was rejected
    Config(String),
    /// process() returned an error / a work item failed: the error messages
    Process(Vec<String>),
    /// no output was produced although no error was reported
    NoOutput,
}

impl std::fmt::Display for DlError {
    fn fmt(&self, f: &mut std::fmt::Formatter<'_>) -> std::fmt::Result {
        match self {
            DlError::Panic(s) => write!(f, "PANIC {}", s),
            DlError::Config(s) => write!(f, "configuration rejected: {}", s),
            DlError::Process(v) => write!(f, "process error: {}", v.join(" | ")),
            DlError::NoOutput => write!(f, "no output written"),
        }
    }
}

pub fn parse_config(config_json5: &str) -> Result<Configuration, String> {
    match catch(|| json5::from_str::<Configuration>(config_json5)) {
        Ok(Ok(c)) => Ok(c),
        Ok(Err(e)) => Err(e.to_string()),
        Err(p) => Err(format!("PANIC {}", p)),
    }
}

/// generator name -> JSON value text for the `generator` key
pub fn generator_json(gen: &str, span: usize) -> String {
    match gen {
        "retain_lines" => "\"retain_lines\"".to_string(),
        g => format!("{{ name: \"{}\", column_span: {} }}", g, span),
    }
}

/// a configuration with the given rules (already JSON5 fragments: `"name"` or `{ rule: ... }`)
pub fn config_text(rules: &[String], generator: &str) -> String {
    format!("{{ rules: [{}], generator: {} }}", rules.join(", "), generator)
}

pub fn quote_rules(names: &[&str]) -> Vec<String> {
    names.iter().map(|n| format!("\"{}\"", n)).collect()
}

/// process one in-memory file `src/main.lua` -> `out/main.lua` with the given configuration text
pub fn process_one(source: &str, config_json5: &str) -> Result<String, DlError> {
    process_one_named(source, config_json5, "src/main.lua")
}

pub fn process_one_named(source: &str, config_json5: &str, name: &str) -> Result<String, DlError> {
    let config = parse_config(config_json5).map_err(DlError::Config)?;
    process_one_with(source, config, name)
}

pub fn process_one_with(source: &str, config: Configuration, name: &str) -> Result<String, DlError> {
    let resources = Resources::from_memory();
    resources.write(name, source).expect("memory write");
    let out = format!("out/{}", name);
    let r = catch(|| {
        let options = Options::new(Path::new(name)).with_output(Path::new(&out)).with_configuration(config);
        darklua_core::process(&resources, options)
    });
    match r {
        Err(p) => Err(DlError::Panic(p)),
        Ok(Err(e)) => Err(DlError::Process(vec![e.to_string()])),
        Ok(Ok(tree)) => {
            let errs: Vec<String> = tree.collect_errors().iter().map(|e| e.to_string()).collect();
            if !errs.is_empty() {
                return Err(DlError::Process(errs));
            }
            match resources.get(&out) {
                Ok(s) => Ok(s),
                Err(_) => Err(DlError::NoOutput),
            }
        }
    }
}

/// process with extra in-memory files present (for bundling / requires)
pub fn process_project(
    files: &[(String, String)],
    entry: &str,
    out: &str,
    config: Configuration,
) -> Result<(Resources, Vec<String>), DlError> {
    let resources = Resources::from_memory();
    for (p, c) in files {
        resources.write(p, c).expect("memory write");
    }
    let r = catch(|| {
        let options = Options::new(Path::new(entry)).with_output(Path::new(out)).with_configuration(config);
        darklua_core::process(&resources, options)
    });
    match r {
        Err(p) => Err(DlError::Panic(p)),
        Ok(Err(e)) => Err(DlError::Process(vec![e.to_string()])),
        Ok(Ok(tree)) => {
            let errs: Vec<String> = tree.collect_errors().iter().map(|e| e.to_string()).collect();
            Ok((resources, errs))
        }
    }
}

/// parse with darklua's own parser (token-preserving or not); Ok(()) / Err(message) / panic
pub fn dl_parse(source: &str, preserve_tokens: bool) -> Result<Result<darklua_core::nodes::Block, String>, String> {
    catch(|| {
        let p = if preserve_tokens {
            darklua_core::Parser::default().preserve_tokens()
        } else {
            darklua_core::Parser::default()
        };
        p.parse(source).map_err(|e| e.to_string())
    })
}
