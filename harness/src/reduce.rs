//! AST-level reducer for program-shaped failing cases: delete statements, unwrap compound
//! statements and replace sub-expressions by simpler ones while the oracle still fails.

use crate::luaprint::print_plain;
use crate::luasyn::ast::*;

fn walk_blocks_mut(b: &mut Block, f: &mut dyn FnMut(&mut Block)) {
    f(b);
    for s in b.stmts.iter_mut() {
        walk_stmt_blocks(s, f);
    }
}

fn walk_func(fb: &mut FuncBody, f: &mut dyn FnMut(&mut Block)) {
    walk_blocks_mut(&mut fb.body, f);
}

fn walk_expr_blocks(e: &mut Expr, f: &mut dyn FnMut(&mut Block)) {
    match e {
        Expr::Function { func, .. } => walk_func(func, f),
        Expr::Index { obj, key } => {
            walk_expr_blocks(obj, f);
            walk_expr_blocks(key, f);
        }
        Expr::Field { obj, .. } => walk_expr_blocks(obj, f),
        Expr::Call { f: callee, args, .. } => {
            walk_expr_blocks(callee, f);
            for a in args {
                walk_expr_blocks(a, f);
            }
        }
        Expr::MethodCall { obj, args, .. } => {
            walk_expr_blocks(obj, f);
            for a in args {
                walk_expr_blocks(a, f);
            }
        }
        Expr::Paren(a) | Expr::Unary(_, a) => walk_expr_blocks(a, f),
        Expr::Binary(_, a, b) => {
            walk_expr_blocks(a, f);
            walk_expr_blocks(b, f);
        }
        Expr::Table(items) => {
            for it in items {
                match it {
                    TableItem::Pos(v) | TableItem::Named(_, v) => walk_expr_blocks(v, f),
                    TableItem::Keyed(k, v) => {
                        walk_expr_blocks(k, f);
                        walk_expr_blocks(v, f);
                    }
                }
            }
        }
        Expr::IfExpr { clauses, else_ } => {
            for (c, v) in clauses {
                walk_expr_blocks(c, f);
                walk_expr_blocks(v, f);
            }
            walk_expr_blocks(else_, f);
        }
        Expr::Interp(segs) => {
            for s in segs {
                if let InterpSeg::Expr(e) = s {
                    walk_expr_blocks(e, f);
                }
            }
        }
        Expr::Cast { expr, .. } | Expr::Instantiate { expr, .. } => walk_expr_blocks(expr, f),
        _ => {}
    }
}

fn walk_stmt_blocks(s: &mut Stmt, f: &mut dyn FnMut(&mut Block)) {
    match s {
        Stmt::Local { values, .. } => values.iter_mut().for_each(|e| walk_expr_blocks(e, f)),
        Stmt::Assign { targets, values } => {
            targets.iter_mut().for_each(|e| walk_expr_blocks(e, f));
            values.iter_mut().for_each(|e| walk_expr_blocks(e, f));
        }
        Stmt::CompoundAssign { target, value, .. } => {
            walk_expr_blocks(target, f);
            walk_expr_blocks(value, f);
        }
        Stmt::Call(e) => walk_expr_blocks(e, f),
        Stmt::Do(b) => walk_blocks_mut(b, f),
        Stmt::While { cond, body } => {
            walk_expr_blocks(cond, f);
            walk_blocks_mut(body, f);
        }
        Stmt::Repeat { body, cond } => {
            walk_blocks_mut(body, f);
            walk_expr_blocks(cond, f);
        }
        Stmt::If { clauses, else_ } => {
            for (c, b) in clauses {
                walk_expr_blocks(c, f);
                walk_blocks_mut(b, f);
            }
            if let Some(b) = else_ {
                walk_blocks_mut(b, f);
            }
        }
        Stmt::NumFor { start, limit, step, body, .. } => {
            walk_expr_blocks(start, f);
            walk_expr_blocks(limit, f);
            if let Some(s) = step {
                walk_expr_blocks(s, f);
            }
            walk_blocks_mut(body, f);
        }
        Stmt::GenFor { exprs, body, .. } => {
            exprs.iter_mut().for_each(|e| walk_expr_blocks(e, f));
            walk_blocks_mut(body, f);
        }
        Stmt::Function { func, .. } | Stmt::LocalFunction { func, .. } | Stmt::TypeFunction { func, .. } => walk_func(func, f),
        Stmt::Return(v) => v.iter_mut().for_each(|e| walk_expr_blocks(e, f)),
        _ => {}
    }
}

fn count_stmts(b: &Block) -> usize {
    let mut n = 0;
    let mut c = b.clone();
    walk_blocks_mut(&mut c, &mut |blk| n += blk.stmts.len());
    n
}

/// apply `edit` to the statement with global pre-order index `idx` (counted block by block)
fn edit_stmt(b: &Block, idx: usize, edit: &dyn Fn(&Stmt) -> Option<Vec<Stmt>>) -> Option<Block> {
    let mut c = b.clone();
    let mut seen = 0usize;
    let mut done = false;
    let mut ok = false;
    walk_blocks_mut(&mut c, &mut |blk| {
        if done {
            return;
        }
        if idx < seen + blk.stmts.len() {
            let local = idx - seen;
            if let Some(repl) = edit(&blk.stmts[local]) {
                blk.stmts.splice(local..local + 1, repl);
                ok = true;
            }
            done = true;
        }
        seen += blk.stmts.len();
    });
    if ok {
        Some(c)
    } else {
        None
    }
}

fn unwrap(s: &Stmt) -> Option<Vec<Stmt>> {
    match s {
        Stmt::Do(b) => Some(b.stmts.clone()),
        Stmt::If { clauses, else_ } => {
            if clauses.len() > 1 || else_.is_some() {
                // drop the last alternative first
                let mut c = clauses.clone();
                if else_.is_some() {
                    return Some(vec![Stmt::If { clauses: c, else_: None }]);
                }
                c.pop();
                return Some(vec![Stmt::If { clauses: c, else_: None }]);
            }
            Some(clauses[0].1.stmts.clone())
        }
        Stmt::While { body, .. } | Stmt::NumFor { body, .. } | Stmt::GenFor { body, .. } | Stmt::Repeat { body, .. } => Some(body.stmts.clone()),
        _ => None,
    }
}

fn for_each_expr_mut(b: &mut Block, f: &mut dyn FnMut(&mut Expr)) {
    fn ex(e: &mut Expr, f: &mut dyn FnMut(&mut Expr)) {
        f(e);
        match e {
            Expr::Function { func, .. } => blk(&mut func.body, f),
            Expr::Index { obj, key } => {
                ex(obj, f);
                ex(key, f);
            }
            Expr::Field { obj, .. } => ex(obj, f),
            Expr::Call { f: callee, args, .. } => {
                ex(callee, f);
                args.iter_mut().for_each(|a| ex(a, f));
            }
            Expr::MethodCall { obj, args, .. } => {
                ex(obj, f);
                args.iter_mut().for_each(|a| ex(a, f));
            }
            Expr::Paren(a) | Expr::Unary(_, a) => ex(a, f),
            Expr::Binary(_, a, b) => {
                ex(a, f);
                ex(b, f);
            }
            Expr::Table(items) => {
                for it in items {
                    match it {
                        TableItem::Pos(v) | TableItem::Named(_, v) => ex(v, f),
                        TableItem::Keyed(k, v) => {
                            ex(k, f);
                            ex(v, f);
                        }
                    }
                }
            }
            Expr::IfExpr { clauses, else_ } => {
                for (c, v) in clauses {
                    ex(c, f);
                    ex(v, f);
                }
                ex(else_, f);
            }
            Expr::Interp(segs) => {
                for s in segs {
                    if let InterpSeg::Expr(e) = s {
                        ex(e, f);
                    }
                }
            }
            Expr::Cast { expr, .. } | Expr::Instantiate { expr, .. } => ex(expr, f),
            _ => {}
        }
    }
    fn blk(b: &mut Block, f: &mut dyn FnMut(&mut Expr)) {
        for s in b.stmts.iter_mut() {
            match s {
                Stmt::Local { values, .. } => values.iter_mut().for_each(|e| ex(e, f)),
                Stmt::Assign { targets, values } => {
                    targets.iter_mut().for_each(|e| ex(e, f));
                    values.iter_mut().for_each(|e| ex(e, f));
                }
                Stmt::CompoundAssign { target, value, .. } => {
                    ex(target, f);
                    ex(value, f);
                }
                Stmt::Call(e) => {
                    // keep the statement a call: only descend
                    match e {
                        Expr::Call { f: callee, args, .. } => {
                            ex(callee, f);
                            args.iter_mut().for_each(|a| ex(a, f));
                        }
                        Expr::MethodCall { obj, args, .. } => {
                            ex(obj, f);
                            args.iter_mut().for_each(|a| ex(a, f));
                        }
                        _ => {}
                    }
                }
                Stmt::Do(b) => blk(b, f),
                Stmt::While { cond, body } => {
                    ex(cond, f);
                    blk(body, f);
                }
                Stmt::Repeat { body, cond } => {
                    blk(body, f);
                    ex(cond, f);
                }
                Stmt::If { clauses, else_ } => {
                    for (c, b) in clauses {
                        ex(c, f);
                        blk(b, f);
                    }
                    if let Some(b) = else_ {
                        blk(b, f);
                    }
                }
                Stmt::NumFor { start, limit, step, body, .. } => {
                    ex(start, f);
                    ex(limit, f);
                    if let Some(s) = step {
                        ex(s, f);
                    }
                    blk(body, f);
                }
                Stmt::GenFor { exprs, body, .. } => {
                    exprs.iter_mut().for_each(|e| ex(e, f));
                    blk(body, f);
                }
                Stmt::Function { func, .. } | Stmt::LocalFunction { func, .. } | Stmt::TypeFunction { func, .. } => blk(&mut func.body, f),
                Stmt::Return(v) => v.iter_mut().for_each(|e| ex(e, f)),
                _ => {}
            }
        }
    }
    blk(b, f);
}

fn children(e: &Expr) -> Vec<Expr> {
    match e {
        Expr::Paren(a) | Expr::Unary(_, a) => vec![(**a).clone()],
        Expr::Binary(_, a, b) => vec![(**a).clone(), (**b).clone()],
        Expr::Index { obj, key } => vec![(**obj).clone(), (**key).clone()],
        Expr::Field { obj, .. } => vec![(**obj).clone()],
        Expr::Call { args, .. } | Expr::MethodCall { args, .. } => args.clone(),
        Expr::IfExpr { clauses, else_ } => {
            let mut v: Vec<Expr> = clauses.iter().map(|c| c.1.clone()).collect();
            v.push((**else_).clone());
            v
        }
        Expr::Cast { expr, .. } => vec![(**expr).clone()],
        Expr::Table(items) if !items.is_empty() => vec![Expr::Table(items[..items.len() - 1].to_vec()), Expr::Table(items[1..].to_vec())],
        _ => vec![],
    }
}

fn simple(e: &Expr) -> bool {
    matches!(e, Expr::Nil | Expr::True | Expr::False | Expr::Name(_) | Expr::Vararg) || matches!(e, Expr::Number { .. } | Expr::Str { .. })
}

/// Greedy reduction.  `fails(text)` must return true iff the oracle still reports the violation.
pub fn reduce(block: &Block, fails: &dyn Fn(&str) -> bool, max_evals: usize) -> Block {
    let mut cur = block.clone();
    let mut evals = 0usize;
    let try_candidate = |cand: &Block, evals: &mut usize| -> bool {
        *evals += 1;
        fails(&print_plain(cand))
    };
    loop {
        let mut progress = false;
        // 1. delete statements, last to first
        let mut i = count_stmts(&cur);
        while i > 0 && evals < max_evals {
            i -= 1;
            if let Some(c) = edit_stmt(&cur, i, &|_| Some(vec![])) {
                if try_candidate(&c, &mut evals) {
                    cur = c;
                    progress = true;
                    i = i.min(count_stmts(&cur));
                }
            }
        }
        // 2. unwrap compound statements
        let mut i = count_stmts(&cur);
        while i > 0 && evals < max_evals {
            i -= 1;
            if let Some(c) = edit_stmt(&cur, i, &unwrap) {
                if try_candidate(&c, &mut evals) {
                    cur = c;
                    progress = true;
                    i = count_stmts(&cur);
                }
            }
        }
        // 3. simplify expressions
        let mut n_exprs = 0;
        {
            let mut c = cur.clone();
            for_each_expr_mut(&mut c, &mut |_| n_exprs += 1);
        }
        let mut k = 0;
        while k < n_exprs && evals < max_evals {
            // candidates for the k-th expression
            let mut target: Option<Expr> = None;
            {
                let mut c = cur.clone();
                let mut j = 0;
                for_each_expr_mut(&mut c, &mut |e| {
                    if j == k {
                        target = Some(e.clone());
                    }
                    j += 1;
                });
            }
            let Some(te) = target else { break };
            let mut changed = false;
            if !simple(&te) {
                let mut cands = children(&te);
                cands.push(Expr::Nil);
                cands.push(Expr::True);
                cands.push(Expr::Number { raw: String::new(), value: 1.0 });
                for cand in cands {
                    if evals >= max_evals {
                        break;
                    }
                    let mut c = cur.clone();
                    let mut j = 0;
                    for_each_expr_mut(&mut c, &mut |e| {
                        if j == k {
                            *e = cand.clone();
                        }
                        j += 1;
                    });
                    if try_candidate(&c, &mut evals) {
                        cur = c;
                        progress = true;
                        changed = true;
                        break;
                    }
                }
            }
            if changed {
                n_exprs = 0;
                let mut c = cur.clone();
                for_each_expr_mut(&mut c, &mut |_| n_exprs += 1);
            } else {
                k += 1;
            }
        }
        if !progress || evals >= max_evals {
            break;
        }
    }
    cur
}
