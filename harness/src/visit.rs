//! Immutable walker over the reference AST: every statement and every expression, with the
//! information whether an expression sits in a multi-value tail position.

use crate::luasyn::ast::*;

pub enum Node<'a> {
    Stmt(&'a Stmt),
    /// `tail` = last element of an argument list, return list, initialiser / value list, or
    /// last positional item of a table constructor (where a call / `...` expands)
    Expr { e: &'a Expr, tail: bool },
}

pub fn walk_block<'a>(b: &'a Block, f: &mut dyn FnMut(Node<'a>)) {
    for s in &b.stmts {
        walk_stmt(s, f);
    }
}

fn list<'a>(v: &'a [Expr], f: &mut dyn FnMut(Node<'a>)) {
    let n = v.len();
    for (i, e) in v.iter().enumerate() {
        walk_expr(e, i + 1 == n, f);
    }
}

pub fn walk_func<'a>(fb: &'a FuncBody, f: &mut dyn FnMut(Node<'a>)) {
    walk_block(&fb.body, f);
}

pub fn walk_stmt<'a>(s: &'a Stmt, f: &mut dyn FnMut(Node<'a>)) {
    f(Node::Stmt(s));
    match s {
        Stmt::Local { values, .. } => list(values, f),
        Stmt::Assign { targets, values } => {
            for t in targets {
                walk_expr(t, false, f);
            }
            list(values, f);
        }
        Stmt::CompoundAssign { target, value, .. } => {
            walk_expr(target, false, f);
            walk_expr(value, false, f);
        }
        Stmt::Call(e) => walk_expr(e, false, f),
        Stmt::Do(b) => walk_block(b, f),
        Stmt::While { cond, body } => {
            walk_expr(cond, false, f);
            walk_block(body, f);
        }
        Stmt::Repeat { body, cond } => {
            walk_block(body, f);
            walk_expr(cond, false, f);
        }
        Stmt::If { clauses, else_ } => {
            for (c, b) in clauses {
                walk_expr(c, false, f);
                walk_block(b, f);
            }
            if let Some(b) = else_ {
                walk_block(b, f);
            }
        }
        Stmt::NumFor { start, limit, step, body, .. } => {
            walk_expr(start, false, f);
            walk_expr(limit, false, f);
            if let Some(s) = step {
                walk_expr(s, false, f);
            }
            walk_block(body, f);
        }
        Stmt::GenFor { exprs, body, .. } => {
            list(exprs, f);
            walk_block(body, f);
        }
        Stmt::Function { func, .. } | Stmt::LocalFunction { func, .. } | Stmt::TypeFunction { func, .. } => walk_func(func, f),
        Stmt::Return(v) => list(v, f),
        Stmt::Break | Stmt::Continue | Stmt::TypeDecl { .. } => {}
    }
}

pub fn walk_expr<'a>(e: &'a Expr, tail: bool, f: &mut dyn FnMut(Node<'a>)) {
    f(Node::Expr { e, tail });
    match e {
        Expr::Function { func, .. } => walk_func(func, f),
        Expr::Index { obj, key } => {
            walk_expr(obj, false, f);
            walk_expr(key, false, f);
        }
        Expr::Field { obj, .. } => walk_expr(obj, false, f),
        Expr::Call { f: callee, args, .. } => {
            walk_expr(callee, false, f);
            list(args, f);
        }
        Expr::MethodCall { obj, args, .. } => {
            walk_expr(obj, false, f);
            list(args, f);
        }
        Expr::Paren(a) | Expr::Unary(_, a) => walk_expr(a, false, f),
        Expr::Binary(_, a, b) => {
            walk_expr(a, false, f);
            walk_expr(b, false, f);
        }
        Expr::Table(items) => {
            let n = items.len();
            for (i, it) in items.iter().enumerate() {
                match it {
                    TableItem::Pos(v) => walk_expr(v, i + 1 == n, f),
                    TableItem::Named(_, v) => walk_expr(v, false, f),
                    TableItem::Keyed(k, v) => {
                        walk_expr(k, false, f);
                        walk_expr(v, false, f);
                    }
                }
            }
        }
        Expr::IfExpr { clauses, else_ } => {
            // an if-expression yields one value, but when a rule folds it to one of its branches
            // (statically known condition) that branch lands in the position of the whole
            // expression: branches inherit `tail` (used by the known-finding predicates only)
            for (c, v) in clauses {
                walk_expr(c, false, f);
                walk_expr(v, tail, f);
            }
            walk_expr(else_, tail, f);
        }
        Expr::Interp(segs) => {
            for s in segs {
                if let InterpSeg::Expr(e) = s {
                    walk_expr(e, false, f);
                }
            }
        }
        Expr::Cast { expr, .. } | Expr::Instantiate { expr, .. } => walk_expr(expr, false, f),
        _ => {}
    }
}

/// generous static test: could a constant folder know the value (or at least the truthiness) of
/// `e` without running it?  Deliberately over-approximates (a yes only costs a discarded case).
pub fn truthiness_may_be_static(e: &Expr) -> bool {
    match e {
        Expr::Nil | Expr::True | Expr::False | Expr::Number { .. } | Expr::Str { .. } | Expr::Table(_) | Expr::Function { .. } | Expr::Interp(_) => true,
        Expr::Paren(a) | Expr::Unary(_, a) => truthiness_may_be_static(a),
        Expr::Binary(op, a, b) => match op {
            // `nil and f()` never evaluates f; `x or {}` is always truthy
            BinOp::And | BinOp::Or => truthiness_may_be_static(a) || truthiness_may_be_static(b),
            // arithmetic and concatenation results are always truthy when they do not raise
            BinOp::Add | BinOp::Sub | BinOp::Mul | BinOp::Div | BinOp::IDiv | BinOp::Mod | BinOp::Pow | BinOp::Concat => true,
            _ => truthiness_may_be_static(a) && truthiness_may_be_static(b),
        },
        // a statically known condition prunes branches; otherwise every result must be known
        Expr::IfExpr { clauses, else_ } => {
            clauses.iter().any(|c| truthiness_may_be_static(&c.0)) || (clauses.iter().all(|c| truthiness_may_be_static(&c.1)) && truthiness_may_be_static(else_))
        }
        Expr::Cast { expr, .. } => truthiness_may_be_static(expr),
        // convert_square_root_call turns math.sqrt(x) into x ^ 0.5, which a folder then evaluates
        Expr::Call { f, args, .. } => {
            matches!(&**f, Expr::Field { obj, .. } if matches!(&**obj, Expr::Name(n) if n == "math")) && args.iter().all(truthiness_may_be_static)
        }
        _ => false,
    }
}

fn multi_spine(e: &Expr) -> bool {
    match e {
        Expr::Call { .. } | Expr::MethodCall { .. } | Expr::Vararg => true,
        Expr::Binary(BinOp::And | BinOp::Or, _, b) => multi_spine(b),
        _ => false,
    }
}

/// known finding C01 "const-andor-multi-tail": an and/or in a multi-value tail position whose
/// left operand may be statically known and whose right spine ends in a call / `...`
pub fn has_const_andor_multi_tail(b: &Block) -> bool {
    let mut found = false;
    walk_block(b, &mut |n| {
        if let Node::Expr { e: Expr::Binary(BinOp::And | BinOp::Or, l, r), tail: true } = n {
            if multi_spine(r) && (truthiness_may_be_static(l) || nested_static_left(l)) {
                found = true;
            }
        }
    });
    found
}

fn nested_static_left(l: &Expr) -> bool {
    // `(a and b) or f()`: folding the inner operator can expose the outer one
    match l {
        Expr::Binary(BinOp::And | BinOp::Or, a, b) => truthiness_may_be_static(a) || truthiness_may_be_static(b) || nested_static_left(a) || nested_static_left(b),
        _ => false,
    }
}

/// known finding C06 "interp-tostring-order": an interpolated string in which a value that may
/// be an object (a bare name) is followed by a later value containing a call
pub fn has_interp_tostring_order(b: &Block) -> bool {
    let mut found = false;
    walk_block(b, &mut |n| {
        if let Node::Expr { e: Expr::Interp(segs), .. } = n {
            let exprs: Vec<&Expr> = segs.iter().filter_map(|s| if let InterpSeg::Expr(e) = s { Some(e) } else { None }).collect();
            for (i, e) in exprs.iter().enumerate() {
                if matches!(e, Expr::Name(_)) && exprs[i + 1..].iter().any(|l| contains_call(l)) {
                    found = true;
                }
            }
        }
    });
    found
}

pub fn contains_call(e: &Expr) -> bool {
    let mut c = false;
    walk_expr(e, false, &mut |n| {
        if let Node::Expr { e: Expr::Call { .. } | Expr::MethodCall { .. }, .. } = n {
            c = true;
        }
    });
    c
}
