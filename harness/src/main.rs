use dlv::engine::{run_property, Tier};
use std::path::PathBuf;

fn verif_dir() -> PathBuf {
    if let Ok(d) = std::env::var("VERIF_DIR") {
        return PathBuf::from(d);
    }
    PathBuf::from("/verif")
}

fn main() {
    let args: Vec<String> = std::env::args().collect();
    let usage = || -> ! {
        eprintln!("usage: dlv run <ID> <quick|thorough> | dlv replay <file> | dlv list");
        std::process::exit(2)
    };
    if args.len() < 2 {
        usage();
    }
    // run everything on a big-stack thread: darklua / full_moon recurse deeply
    let child = std::thread::Builder::new()
        .stack_size(512 << 20)
        .spawn(move || -> i32 {
            match args[1].as_str() {
                "list" => {
                    for p in dlv::props::all() {
                        println!("{}", p.id);
                    }
                    0
                }
                "gen" => {
                    // debug aid: print generated programs and their reference behaviour
                    let n: u64 = args.get(2).and_then(|s| s.parse().ok()).unwrap_or(3);
                    let luau = args.get(3).map(|s| s == "luau").unwrap_or(false);
                    for i in 0..n {
                        let tape = dlv::tape::tape_from_seed(1000 + i, 700);
                        let mut t = dlv::tape::Tape::new(&tape);
                        let opts = if luau { dlv::gen::progen::GenOpts::luau() } else { dlv::gen::progen::GenOpts::lua51() };
                        let p = dlv::gen::progen::gen_program(&mut t, &opts);
                        let text = dlv::luaprint::print_plain(&p.block);
                        println!("-------- program {} ({:?})\n{}", i, p.stats, text);
                        match dlv::luasyn::parse(&text, dlv::luasyn::Mode::Luau) {
                            Ok(po) => {
                                let (o, msg) = dlv::luaref::run_debug(&po.block, &dlv::behave::cfg(dlv::luaref::Dialect::Luau));
                                println!("-------- behaviour\n{}{}", dlv::behave::describe(&o), msg.unwrap_or_default());
                            }
                            Err(e) => println!("PARSE ERROR {:?}", e),
                        }
                    }
                    0
                }
                "run" => {
                    if args.len() < 4 {
                        usage();
                    }
                    let tier = match args[3].as_str() {
                        "quick" => Tier::Quick,
                        "thorough" => Tier::Thorough,
                        _ => usage(),
                    };
                    let seed: u64 = std::env::var("VERIF_SEED").ok().and_then(|s| s.trim().parse::<i128>().ok()).map(|v| v as u64).unwrap_or(1);
                    let Some(def) = dlv::props::all().into_iter().find(|p| p.id == args[2]) else {
                        eprintln!("unknown property {}", args[2]);
                        return 2;
                    };
                    run_property(&def, tier, seed, verif_dir())
                }
                "shard" => {
                    // dlv shard <ID> <tier> <phase> <shard>: child of an isolated search phase
                    if args.len() < 6 {
                        usage();
                    }
                    let tier = if args[3] == "thorough" { Tier::Thorough } else { Tier::Quick };
                    let seed: u64 = std::env::var("VERIF_SEED").ok().and_then(|s| s.trim().parse::<i128>().ok()).map(|v| v as u64).unwrap_or(1);
                    let Some(def) = dlv::props::all().into_iter().find(|p| p.id == args[2]) else { return 2 };
                    dlv::engine::run_shard_process(&def, tier, seed, verif_dir(), &args[4], args[5].parse().unwrap_or(0))
                }
                "tape" => {
                    // dlv tape <ID> <phase> <file>: evaluate a raw choice tape (fuzzer artifact)
                    if args.len() < 5 {
                        usage();
                    }
                    let Some(def) = dlv::props::all().into_iter().find(|p| p.id == args[2]) else { return 2 };
                    dlv::engine::run_tape_file(&def, verif_dir(), &args[3], std::path::Path::new(&args[4]))
                }
                "replay" => {
                    if args.len() < 3 {
                        usage();
                    }
                    dlv::engine::install_panic_hook();
                    let text = match std::fs::read_to_string(&args[2]) {
                        Ok(t) => t,
                        Err(e) => {
                            eprintln!("cannot read {}: {}", args[2], e);
                            return 2;
                        }
                    };
                    let v: serde_json::Value = match serde_json::from_str(&text) {
                        Ok(v) => v,
                        Err(e) => {
                            eprintln!("bad replay file: {}", e);
                            return 2;
                        }
                    };
                    let id = v.get("property").and_then(|x| x.as_str()).unwrap_or("").to_string();
                    let Some(def) = dlv::props::all().into_iter().find(|p| p.id == id) else {
                        eprintln!("replay file names unknown property {:?}", id);
                        return 2;
                    };
                    match dlv::engine::catch(|| (def.replay)(&v)) {
                        Ok(Ok(())) => {
                            println!("OK property={} holds on {}", id, args[2]);
                            0
                        }
                        Ok(Err(msg)) => {
                            println!("VIOLATION property={} replay={}", id, args[2]);
                            for l in msg.lines() {
                                println!("  {}", l);
                            }
                            1
                        }
                        Err(p) => {
                            println!("INCONCLUSIVE harness panic during replay: {}", p);
                            2
                        }
                    }
                }
                _ => usage(),
            }
        })
        .expect("spawn main thread");
    let code = child.join().unwrap_or(2);
    std::process::exit(code);
}
