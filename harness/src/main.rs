fn main(){ dlv::x(); }
