//! AST walker: statements, expressions, types -> tokens with canonical gaps.

use super::engine::*;
use crate::luasyn::ast::*;

pub(super) fn prec(op: BinOp) -> u8 {
    op.binding_power().0
}

pub(super) fn right_assoc(op: BinOp) -> bool {
    let (l, r) = op.binding_power();
    l > r
}

pub(super) fn need_right(op: BinOp, r: &Expr) -> bool {
    match r {
        Expr::Binary(o2, _, _) => prec(*o2) < prec(op) || (prec(*o2) == prec(op) && !right_assoc(op)),
        _ => false,
    }
}

pub(super) fn need_unary_operand(x: &Expr) -> bool {
    match x {
        Expr::Binary(o, _, _) => prec(*o) < UNARY_PRIORITY,
        Expr::IfExpr { .. } => true,
        _ => false,
    }
}

/// does the bare spelling end with something that would swallow a following operator
/// (the `else` branch of an if-expression, the type of a cast)?
pub(super) fn ends_open(e: &Expr) -> bool {
    match e {
        Expr::IfExpr { .. } | Expr::Cast { .. } => true,
        Expr::Unary(_, x) => !need_unary_operand(x) && ends_open(x),
        Expr::Binary(op, _, r) => !need_right(*op, r) && ends_open(r),
        _ => false,
    }
}

pub(super) fn need_left(op: BinOp, l: &Expr) -> bool {
    if ends_open(l) {
        return true;
    }
    match l {
        Expr::Binary(o2, _, _) => prec(*o2) < prec(op) || (prec(*o2) == prec(op) && right_assoc(op)),
        Expr::Unary(..) => UNARY_PRIORITY < prec(op),
        _ => false,
    }
}

/// would the statement's text start with `(` ?
pub(super) fn head_paren(e: &Expr) -> bool {
    match e {
        Expr::Name(_) => false,
        Expr::Field { obj, .. } | Expr::Index { obj, .. } | Expr::MethodCall { obj, .. } => head_paren(obj),
        Expr::Call { f, .. } => match &**f {
            Expr::Instantiate { expr, .. } => head_paren(expr),
            f => head_paren(f),
        },
        _ => true,
    }
}

/// conservative: false only when the last token of the statement clearly cannot be continued by a call
fn stmt_may_end_with_prefix(s: &Stmt) -> bool {
    fn expr_may(e: &Expr) -> bool {
        match e {
            Expr::Nil | Expr::True | Expr::False | Expr::Number { .. } | Expr::Str { .. } | Expr::Table(_) | Expr::Function { .. } => false,
            // parentheses the printer adds around an operand close the text with `)`
            Expr::Binary(op, _, r) => need_right(*op, r) || expr_may(r),
            Expr::Unary(_, a) => need_unary_operand(a) || expr_may(a),
            _ => true,
        }
    }
    match s {
        Stmt::Do(_) | Stmt::While { .. } | Stmt::NumFor { .. } | Stmt::GenFor { .. } | Stmt::If { .. } | Stmt::Function { .. } | Stmt::LocalFunction { .. } | Stmt::Break | Stmt::Continue => false,
        Stmt::Local { values, .. } => values.last().map_or(false, expr_may),
        Stmt::Assign { values, .. } => values.last().map_or(true, expr_may),
        Stmt::CompoundAssign { value, .. } => expr_may(value),
        _ => true,
    }
}

fn stmt_starts_with_paren(s: &Stmt) -> bool {
    match s {
        Stmt::Call(e) => head_paren(e),
        Stmt::Assign { targets, .. } => targets.first().map_or(false, head_paren),
        Stmt::CompoundAssign { target, .. } => head_paren(target),
        _ => false,
    }
}

pub(super) fn is_marker(raw: &str, value: &[u8]) -> bool {
    raw.is_empty() && value == b"@L"
}

#[derive(Clone, Copy, PartialEq, Eq)]
pub(super) enum TyCtx {
    Top,
    UnionMember,
    InterMember,
    OptionalInner,
}

impl<'t, 'd> Pr<'t, 'd> {
    // ------------------------------------------------------------------ file / blocks

    pub fn file(&mut self, b: &Block) {
        self.stmts(&b.stmts);
        self.finish();
    }

    fn stmts(&mut self, list: &[Stmt]) {
        for (i, s) in list.iter().enumerate() {
            let g = if self.last == 0 { G::First } else { G::Line };
            self.stmt(g, s);
            // `;` is needed in front of a statement starting with `(` only when this statement ends with
            // something that could be called; in the clear cases (a literal, a table, a function, a
            // block closed by `end`, ...) it is left to the layout liberties
            // (the layout may have wrapped the last expression in redundant parentheses: the text then ends with `)`)
            let required = list.get(i + 1).map_or(false, stmt_starts_with_paren) && (matches!(self.last, b')' | b']') || stmt_may_end_with_prefix(s));
            if required {
                self.tok(G::Tight, ";");
            } else if self.opt(|o| o.semicolons) && self.tb(40) {
                self.tok(G::Tight, ";");
                self.kind(K_SEMI);
                self.stat(|s| s.semicolons += 1);
            }
        }
    }

    /// indented statements followed by the closing keyword
    fn body(&mut self, b: &Block, closer: &str) {
        self.indent += 1;
        self.stmts(&b.stmts);
        self.indent -= 1;
        self.tok(if b.stmts.is_empty() { G::Sp } else { G::Line }, closer);
    }

    // ------------------------------------------------------------------ statements

    fn stmt(&mut self, g: G, s: &Stmt) {
        match s {
            Stmt::Local { is_const, names, values } => {
                self.tok(g, if *is_const { "const" } else { "local" });
                self.bindings(names);
                if !values.is_empty() {
                    self.tok(G::Sp, "=");
                    self.exprs(G::Sp, values);
                }
            }
            Stmt::Assign { targets, values } => {
                for (i, t) in targets.iter().enumerate() {
                    if i == 0 {
                        self.target(g, t, true);
                    } else {
                        self.tok(G::Tight, ",");
                        self.target(G::Sp, t, false);
                    }
                }
                self.tok(G::Sp, "=");
                self.exprs(G::Sp, values);
            }
            Stmt::CompoundAssign { target, op, value } => {
                // darklua hoists the prefix / key of such a target into a temporary, which re-orders tokens
                let hoists = match target {
                    Expr::Index { obj, key } => {
                        !matches!(&**obj, Expr::Name(_))
                            || !matches!(&**key, Expr::Name(_) | Expr::Nil | Expr::True | Expr::False | Expr::Number { .. } | Expr::Str { .. } | Expr::Vararg)
                    }
                    Expr::Field { obj, .. } => !matches!(&**obj, Expr::Name(_)),
                    _ => false,
                };
                if hoists && self.opt(|o| o.plain_compound_targets) {
                    // no comment in front of the statement (it would be attached to the first token of
                    // the target) and none inside the target
                    self.quiet += 1;
                    self.target(g, target, true);
                    self.quiet -= 1;
                } else {
                    // now and then a line comment right above the statement (rules that copy the
                    // target must not copy that comment)
                    if matches!(g, G::Line) && self.active() && self.tb(60) && self.own_line_comment() {
                        self.target(G::Tight, target, true);
                    } else {
                        self.target(g, target, true);
                    }
                }
                let sym = format!("{}=", op.symbol());
                self.tok(G::Sp, &sym);
                self.expr(G::Sp, value);
            }
            Stmt::Call(e) => self.target(g, e, true),
            Stmt::Do(b) => {
                self.tok(g, "do");
                self.body(b, "end");
            }
            Stmt::While { cond, body } => {
                self.tok(g, "while");
                self.expr(G::Sp, cond);
                self.tok(G::Sp, "do");
                self.body(body, "end");
            }
            Stmt::Repeat { body, cond } => {
                self.tok(g, "repeat");
                self.body(body, "until");
                self.expr(G::Sp, cond);
            }
            Stmt::If { clauses, else_ } => {
                for (i, (c, b)) in clauses.iter().enumerate() {
                    if i == 0 {
                        self.tok(g, "if");
                    }
                    self.expr(G::Sp, c);
                    self.tok(G::Sp, "then");
                    let last = i + 1 == clauses.len();
                    let closer = if !last {
                        "elseif"
                    } else if else_.is_some() {
                        "else"
                    } else {
                        "end"
                    };
                    self.body(b, closer);
                }
                if clauses.is_empty() {
                    // not a valid tree; print something parseable
                    self.tok(g, "if");
                    self.tok(G::Sp, "true");
                    self.tok(G::Sp, "then");
                    self.tok(G::Sp, if else_.is_some() { "else" } else { "end" });
                }
                if let Some(b) = else_ {
                    self.body(b, "end");
                }
            }
            Stmt::NumFor { var, start, limit, step, body } => {
                self.tok(g, "for");
                self.binding(G::Sp, var);
                self.tok(G::Sp, "=");
                self.expr(G::Sp, start);
                self.tok(G::Tight, ",");
                self.expr(G::Sp, limit);
                if let Some(s) = step {
                    self.tok(G::Tight, ",");
                    self.expr(G::Sp, s);
                }
                self.tok(G::Sp, "do");
                self.body(body, "end");
            }
            Stmt::GenFor { vars, exprs, body } => {
                self.tok(g, "for");
                self.bindings(vars);
                self.tok(G::Sp, "in");
                self.exprs(G::Sp, exprs);
                self.tok(G::Sp, "do");
                self.body(body, "end");
            }
            Stmt::Function { attrs, name, func } => {
                let g = self.attrs(g, attrs);
                self.tok(g, "function");
                self.tok(G::Sp, &name.base);
                for f in &name.fields {
                    self.tok(G::Tight, ".");
                    self.tok(G::Tight, f);
                }
                if let Some(m) = &name.method {
                    self.tok(G::Tight, ":");
                    self.tok(G::Tight, m);
                }
                self.funcbody(func);
            }
            Stmt::LocalFunction { attrs, is_const, name, func } => {
                let g = self.attrs(g, attrs);
                self.tok(g, if *is_const { "const" } else { "local" });
                self.tok(G::Sp, "function");
                self.tok(G::Sp, name);
                self.funcbody(func);
            }
            Stmt::Return(values) => {
                self.tok(g, "return");
                if !values.is_empty() {
                    self.exprs(G::Sp, values);
                }
            }
            Stmt::Break => self.tok(g, "break"),
            Stmt::Continue => self.tok(g, "continue"),
            Stmt::TypeDecl { export, name, generics, ty } => {
                let g = if *export {
                    self.tok(g, "export");
                    G::Sp
                } else {
                    g
                };
                self.tok(g, "type");
                self.tok(G::Sp, name);
                if let Some(gen) = generics {
                    self.generics_with_defaults(gen);
                }
                self.tok(G::Sp, "=");
                self.ty(G::Sp, ty);
            }
            Stmt::TypeFunction { export, name, func } => {
                let g = if *export {
                    self.tok(g, "export");
                    G::Sp
                } else {
                    g
                };
                self.tok(g, "type");
                self.tok(G::Sp, "function");
                self.tok(G::Sp, name);
                self.funcbody(func);
            }
        }
    }

    fn bindings(&mut self, names: &[Binding]) {
        for (i, b) in names.iter().enumerate() {
            if i > 0 {
                self.tok(G::Tight, ",");
            }
            self.binding(G::Sp, b);
        }
    }

    fn binding(&mut self, g: G, b: &Binding) {
        self.tok(g, &b.name);
        if let Some(t) = &b.ty {
            self.tok(G::Tight, ":");
            self.ty(G::Sp, t);
        }
    }

    pub(super) fn exprs(&mut self, g: G, list: &[Expr]) {
        for (i, e) in list.iter().enumerate() {
            if i == 0 {
                self.expr(g, e);
            } else {
                self.tok(G::Tight, ",");
                self.expr(G::Sp, e);
            }
        }
    }

    /// returns the gap for the token that follows the attributes
    pub(super) fn attrs(&mut self, g: G, attrs: &[Attribute]) -> G {
        let mut g = g;
        for a in attrs {
            match a {
                Attribute::Name(n) => {
                    let s = format!("@{}", n);
                    self.tok(g, &s);
                }
                Attribute::Group(els) => {
                    self.tok(g, "@[");
                    for (i, el) in els.iter().enumerate() {
                        if i > 0 {
                            self.tok(G::Tight, ",");
                        }
                        self.tok(if i == 0 { G::Tight } else { G::Sp }, &el.name);
                        self.no_wrap += 1;
                        match &el.args {
                            None => {}
                            Some(AttributeArgs::Tuple(es)) => {
                                self.tok(G::NoNl, "(");
                                self.exprs(G::Tight, es);
                                self.tok(G::Tight, ")");
                            }
                            Some(AttributeArgs::Str(s)) => self.string_tok(G::Sp, "", s, true),
                            Some(AttributeArgs::Table(t)) => self.expr(G::Sp, t),
                        }
                        self.no_wrap -= 1;
                    }
                    self.tok(G::Tight, "]");
                }
            }
            g = G::Sp;
        }
        g
    }

    pub(super) fn generics(&mut self, gen: &Generics) {
        self.tok(G::Tight, "<");
        let mut first = true;
        for t in &gen.types {
            if !first {
                self.tok(G::Tight, ",");
            }
            self.tok(if first { G::Tight } else { G::Sp }, t);
            first = false;
        }
        for p in &gen.packs {
            if !first {
                self.tok(G::Tight, ",");
            }
            self.tok(if first { G::Tight } else { G::Sp }, p);
            self.tok(G::Tight, "...");
            first = false;
        }
        self.tok(G::Tight, ">");
    }

    fn generics_with_defaults(&mut self, gen: &GenericsWithDefaults) {
        self.tok(G::Tight, "<");
        let mut first = true;
        for (t, d) in &gen.types {
            if !first {
                self.tok(G::Tight, ",");
            }
            self.tok(if first { G::Tight } else { G::Sp }, t);
            if let Some(d) = d {
                self.tok(G::Sp, "=");
                self.ty(G::Sp, d);
            }
            first = false;
        }
        for (p, d) in &gen.packs {
            if !first {
                self.tok(G::Tight, ",");
            }
            self.tok(if first { G::Tight } else { G::Sp }, p);
            self.tok(G::Tight, "...");
            if let Some(d) = d {
                self.tok(G::Sp, "=");
                match d {
                    GenericPackDefault::Pack(p) => self.type_pack(G::Sp, p),
                    GenericPackDefault::Variadic(t) => {
                        self.tok(G::Sp, "...");
                        self.ty(G::Tight, t);
                    }
                    GenericPackDefault::GenericPack(n) => {
                        self.tok(G::Sp, n);
                        self.tok(G::Tight, "...");
                    }
                }
            }
            first = false;
        }
        self.allow_gtgt = true;
        self.tok(G::Tight, ">");
    }

    pub(super) fn funcbody(&mut self, f: &FuncBody) {
        if let Some(gen) = &f.generics {
            self.generics(gen);
        }
        self.tok(G::Tight, "(");
        let mut first = true;
        for p in &f.params {
            if !first {
                self.tok(G::Tight, ",");
            }
            self.binding(if first { G::Tight } else { G::Sp }, p);
            first = false;
        }
        if f.vararg {
            if !first {
                self.tok(G::Tight, ",");
            }
            self.tok(if first { G::Tight } else { G::Sp }, "...");
            if let Some(v) = &f.vararg_ty {
                self.tok(G::Tight, ":");
                match &**v {
                    VariadicAnnotation::Type(t) => self.ty(G::Sp, t),
                    VariadicAnnotation::GenericPack(n) => {
                        self.tok(G::Sp, n);
                        self.tok(G::Tight, "...");
                    }
                }
            }
        }
        self.tok(G::Tight, ")");
        if let Some(r) = &f.ret_ty {
            self.tok(G::Tight, ":");
            self.ret_type(G::Sp, r);
        }
        self.body(&f.body, "end");
    }
}
