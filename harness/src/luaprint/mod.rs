//! Reference AST -> source text.
//!
//! `print_plain` is the canonical layout (one statement per line, two-space indentation,
//! LF, no comments).  `print_layout` lets a choice tape decide the trivia between tokens,
//! optional semicolons, literal spellings, call sugar and neutral parentheses; with an
//! exhausted tape it degrades to the canonical layout.
//!
//! Parentheses required by precedence are not part of the AST, neither are the neutral
//! ones added by `redundant_parens`; compare round trips after `strip_neutral_parens`.

mod engine;
pub mod lit;
mod strip;
mod walk;
mod walk_expr;
mod walk_type;

#[cfg(test)]
mod tests;
#[cfg(test)]
mod tests_corpus;
#[cfg(test)]
mod tests_random;

use crate::luasyn::ast;
use crate::tape::Tape;

pub use strip::{strip_neutral_parens, strip_neutral_parens_expr, strip_type_parens, unmark_lines, erase_spelling};

#[derive(Clone, Debug)]
pub struct LayoutOpts {
    pub luau: bool,
    pub comments: bool,
    pub crlf: bool,
    pub blank_lines: bool,
    pub semicolons: bool,
    pub redundant_parens: bool,
    pub respell_literals: bool,
    pub call_sugar: bool,
    pub multiline: bool,
    pub trailing_newline: bool,
    /// the target of a compound assignment is written without comments and line breaks inside it
    /// (known finding C04-compound-target-over-several-lines)
    pub plain_compound_targets: bool,
}

impl LayoutOpts {
    /// every liberty enabled (`trailing_newline: false` = the file may end without one)
    pub fn all(luau: bool) -> Self {
        LayoutOpts {
            luau,
            comments: true,
            crlf: true,
            blank_lines: true,
            semicolons: true,
            redundant_parens: true,
            respell_literals: true,
            call_sugar: true,
            multiline: true,
            trailing_newline: false,
            plain_compound_targets: false,
        }
    }

    /// no liberty: only whitespace width varies (spaces / tabs on one line)
    pub fn none() -> Self {
        LayoutOpts {
            luau: false,
            comments: false,
            crlf: false,
            blank_lines: false,
            semicolons: false,
            redundant_parens: false,
            respell_literals: false,
            call_sugar: false,
            multiline: false,
            trailing_newline: true,
            plain_compound_targets: false,
        }
    }
}

#[derive(Clone, Debug, Default, PartialEq, Eq)]
pub struct LayoutStats {
    pub comments: usize,
    pub long_comments: usize,
    pub newlines_in_expr: usize,
    pub semicolons: usize,
    pub crlf: bool,
    pub respelled: usize,
    pub sugar_calls: usize,
    pub redundant_parens: usize,
    /// number of distinct kinds of trivia / layout liberties used
    pub trivia_kinds: usize,
}

pub fn print_plain(block: &ast::Block) -> String {
    let mut p = engine::Pr::new(None);
    p.file(block);
    p.out
}

pub fn print_expr_plain(e: &ast::Expr) -> String {
    let mut p = engine::Pr::new(None);
    p.expr(engine::G::Tight, e);
    p.out
}

pub fn print_type_plain(t: &ast::Type) -> String {
    let mut p = engine::Pr::new(None);
    p.ty(engine::G::Tight, t);
    p.out
}

pub fn print_layout(block: &ast::Block, tape: &mut Tape, opts: &LayoutOpts) -> String {
    print_layout_stats(block, tape, opts).0
}

pub fn print_layout_stats(block: &ast::Block, tape: &mut Tape, opts: &LayoutOpts) -> (String, LayoutStats) {
    // per-file decisions first (exhausted tape: LF, two spaces)
    let nl_mode = if opts.crlf { tape.weighted(&[140, 70, 46]) as u8 } else { 0 };
    let unit = match tape.weighted(&[150, 50, 56]) {
        0 => "  ",
        1 => "    ",
        _ => "\t",
    };
    let lay = engine::Lay {
        tape,
        opts: opts.clone(),
        stats: LayoutStats::default(),
        kinds: 0,
        nl_mode,
        unit,
    };
    let mut p = engine::Pr::new(Some(lay));
    p.file(block);
    let lay = p.lay.take().unwrap();
    let mut stats = lay.stats;
    stats.trivia_kinds = lay.kinds.count_ones() as usize;
    (p.out, stats)
}
