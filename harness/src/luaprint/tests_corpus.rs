//! Hand-built trees covering every node kind.

use crate::luasyn::ast::*;

pub fn n(s: &str) -> Expr {
    Expr::name(s)
}
pub fn num(v: f64) -> Expr {
    Expr::num(v)
}
pub fn s(v: &str) -> Expr {
    Expr::str(v.as_bytes().to_vec())
}
pub fn marker() -> Expr {
    Expr::str(b"@L".to_vec())
}
pub fn bx(e: Expr) -> Box<Expr> {
    Box::new(e)
}
pub fn bin(op: BinOp, l: Expr, r: Expr) -> Expr {
    Expr::Binary(op, bx(l), bx(r))
}
pub fn un(op: UnOp, x: Expr) -> Expr {
    Expr::Unary(op, bx(x))
}
pub fn call(f: Expr, args: Vec<Expr>) -> Expr {
    Expr::call(f, args)
}
pub fn mcall(o: Expr, name: &str, args: Vec<Expr>) -> Expr {
    Expr::MethodCall { obj: bx(o), name: name.into(), types: None, args, sugar: CallSugar::Parens }
}
pub fn field(o: Expr, name: &str) -> Expr {
    Expr::Field { obj: bx(o), name: name.into() }
}
pub fn index(o: Expr, k: Expr) -> Expr {
    Expr::Index { obj: bx(o), key: bx(k) }
}
pub fn paren(e: Expr) -> Expr {
    Expr::Paren(bx(e))
}
pub fn local(names: &[&str], values: Vec<Expr>) -> Stmt {
    Stmt::Local { is_const: false, names: names.iter().map(|x| Binding::new(*x)).collect(), values }
}
pub fn assign(t: Vec<Expr>, v: Vec<Expr>) -> Stmt {
    Stmt::Assign { targets: t, values: v }
}
pub fn blk(stmts: Vec<Stmt>) -> Block {
    Block::new(stmts)
}
pub fn fbody(params: &[&str], vararg: bool, body: Vec<Stmt>) -> FuncBody {
    FuncBody {
        generics: None,
        params: params.iter().map(|x| Binding::new(*x)).collect(),
        vararg,
        vararg_ty: None,
        ret_ty: None,
        body: blk(body),
    }
}
pub fn func(params: &[&str], vararg: bool, body: Vec<Stmt>) -> Expr {
    Expr::Function { attrs: vec![], func: Box::new(fbody(params, vararg, body)) }
}
pub fn tname(s: &str) -> Type {
    Type::Name(TypeName { name: s.into(), params: None })
}
pub fn tgen(s: &str, args: Vec<TypeArg>) -> Type {
    Type::Name(TypeName { name: s.into(), params: Some(args) })
}
pub fn typed(name: &str, t: Type) -> Binding {
    Binding { name: name.into(), ty: Some(t) }
}

/// blocks that use only Lua 5.1 constructs
pub fn corpus_51() -> Vec<Block> {
    let mut c = Vec::new();

    // 0: empty
    c.push(blk(vec![]));

    // 1: locals, literals
    c.push(blk(vec![
        local(&["a"], vec![]),
        local(&["b", "c"], vec![num(1.0), num(2.5)]),
        local(&["d"], vec![Expr::Nil]),
        local(&["e", "f"], vec![Expr::True, Expr::False]),
        local(&["g"], vec![s("hello")]),
        local(&["h"], vec![s("line\nbreak \"q\" 'p' \\ \t end")]),
        local(&["i"], vec![Expr::Str { raw: String::new(), value: vec![0, 1, 200, 255, b'x'] }]),
        local(&["j"], vec![num(1e100), num(0.1), num(255.0), num(1000000.0), num(0.0)]),
        local(&["k"], vec![Expr::Number { raw: "0x10".into(), value: 16.0 }, Expr::Str { raw: "'raw'".into(), value: b"raw".to_vec() }]),
        local(&["l"], vec![s("h\u{e9}llo ]] ]=]"), s(""), s("\nfirst")]),
        local(&["m"], vec![marker(), marker()]),
    ]));

    // 2: assignments and calls
    c.push(blk(vec![
        assign(vec![n("a")], vec![num(1.0)]),
        assign(vec![n("a"), field(n("b"), "c"), index(n("t"), num(1.0))], vec![num(1.0), num(2.0), num(3.0)]),
        assign(vec![index(n("t"), s("key"))], vec![call(n("f"), vec![])]),
        Stmt::Call(call(n("f"), vec![])),
        Stmt::Call(call(n("f"), vec![num(1.0), s("two"), Expr::Table(vec![])])),
        Stmt::Call(mcall(n("obj"), "method", vec![n("x")])),
        Stmt::Call(call(field(field(n("a"), "b"), "c"), vec![Expr::Vararg])),
        Stmt::Call(call(call(n("f"), vec![]), vec![num(1.0)])),
        Stmt::Call(mcall(call(n("f"), vec![]), "m", vec![])),
        Stmt::Call(call(n("print"), vec![marker()])),
        Stmt::Call(call(n("require"), vec![s("module")])),
        Stmt::Call(call(n("setup"), vec![Expr::Table(vec![TableItem::Named("a".into(), num(1.0))])])),
        Stmt::Call(Expr::Call { f: bx(n("f")), args: vec![s("sugar")], sugar: CallSugar::Str }),
        Stmt::Call(Expr::Call { f: bx(n("f")), args: vec![Expr::Table(vec![TableItem::Pos(num(1.0))])], sugar: CallSugar::Table }),
        Stmt::Call(Expr::MethodCall { obj: bx(n("o")), name: "m".into(), types: None, args: vec![s("x")], sugar: CallSugar::Str }),
    ]));

    // 3: paren heads (need `;`)
    c.push(blk(vec![
        local(&["x"], vec![n("y")]),
        Stmt::Call(call(paren(bin(BinOp::Or, n("f"), n("g"))), vec![n("x")])),
        Stmt::Call(mcall(s("str"), "rep", vec![num(2.0)])),
        assign(vec![field(Expr::Table(vec![]), "a")], vec![num(1.0)]),
        Stmt::Call(call(func(&[], false, vec![]), vec![])),
        assign(vec![field(paren(n("a")), "b")], vec![call(n("f"), vec![])]),
        Stmt::Call(call(paren(n("g")), vec![])),
        Stmt::Do(blk(vec![Stmt::Call(call(paren(n("g")), vec![])), Stmt::Call(call(paren(n("h")), vec![]))])),
        Stmt::Return(vec![]),
    ]));

    // 4: control flow
    c.push(blk(vec![
        Stmt::Do(blk(vec![])),
        Stmt::Do(blk(vec![local(&["x"], vec![num(1.0)])])),
        Stmt::While { cond: bin(BinOp::Lt, n("i"), num(10.0)), body: blk(vec![assign(vec![n("i")], vec![bin(BinOp::Add, n("i"), num(1.0))]), Stmt::Break]) },
        Stmt::While { cond: Expr::True, body: blk(vec![]) },
        Stmt::Repeat { body: blk(vec![local(&["z"], vec![call(n("f"), vec![])])]), cond: n("z") },
        Stmt::Repeat { body: blk(vec![]), cond: Expr::True },
        Stmt::If { clauses: vec![(n("a"), blk(vec![Stmt::Call(call(n("f"), vec![]))]))], else_: None },
        Stmt::If {
            clauses: vec![(n("a"), blk(vec![])), (n("b"), blk(vec![Stmt::Return(vec![num(1.0)])])), (n("c"), blk(vec![Stmt::Call(call(n("g"), vec![marker()]))]))],
            else_: Some(blk(vec![Stmt::Call(call(n("h"), vec![]))])),
        },
        Stmt::If { clauses: vec![(n("a"), blk(vec![]))], else_: Some(blk(vec![])) },
        Stmt::NumFor { var: Binding::new("i"), start: num(1.0), limit: num(10.0), step: None, body: blk(vec![Stmt::Call(call(n("f"), vec![n("i")]))]) },
        Stmt::NumFor { var: Binding::new("i"), start: num(10.0), limit: num(1.0), step: Some(un(UnOp::Neg, num(1.0))), body: blk(vec![Stmt::Break]) },
        Stmt::GenFor { vars: vec![Binding::new("k"), Binding::new("v")], exprs: vec![call(n("pairs"), vec![n("t")])], body: blk(vec![Stmt::Call(call(n("print"), vec![n("k"), n("v")]))]) },
        Stmt::GenFor { vars: vec![Binding::new("x")], exprs: vec![n("next"), n("t"), Expr::Nil], body: blk(vec![]) },
        Stmt::Return(vec![n("a"), call(n("f"), vec![]), Expr::Vararg]),
    ]));

    // 5: functions
    c.push(blk(vec![
        Stmt::Function { attrs: vec![], name: FuncName { base: "f".into(), fields: vec![], method: None }, func: fbody(&[], false, vec![]) },
        Stmt::Function { attrs: vec![], name: FuncName { base: "a".into(), fields: vec!["b".into(), "c".into()], method: None }, func: fbody(&["x", "y"], false, vec![Stmt::Return(vec![bin(BinOp::Add, n("x"), n("y"))])]) },
        Stmt::Function { attrs: vec![], name: FuncName { base: "a".into(), fields: vec!["b".into()], method: Some("m".into()) }, func: fbody(&["x"], true, vec![Stmt::Return(vec![n("self"), Expr::Vararg])]) },
        Stmt::Function { attrs: vec![], name: FuncName { base: "o".into(), fields: vec![], method: Some("m".into()) }, func: fbody(&[], true, vec![local(&["t"], vec![Expr::Table(vec![TableItem::Pos(Expr::Vararg)])]), Stmt::Return(vec![paren(Expr::Vararg)])]) },
        Stmt::LocalFunction { attrs: vec![], is_const: false, name: "g".into(), func: fbody(&["a"], false, vec![Stmt::Call(call(paren(n("a")), vec![])), Stmt::Return(vec![call(n("g"), vec![n("a")])])]) },
        local(&["h"], vec![func(&["a", "b"], true, vec![Stmt::Return(vec![paren(call(n("f"), vec![Expr::Vararg]))])])]),
        Stmt::Call(call(n("pcall"), vec![func(&[], false, vec![Stmt::Call(call(n("error"), vec![marker()]))]), func(&[], false, vec![])])),
        Stmt::Return(vec![func(&[], false, vec![Stmt::Return(vec![func(&[], false, vec![])])])]),
    ]));

    // 6: tables
    c.push(blk(vec![
        local(&["t"], vec![Expr::Table(vec![])]),
        local(&["t"], vec![Expr::Table(vec![TableItem::Pos(num(1.0)), TableItem::Pos(num(2.0)), TableItem::Pos(num(3.0))])]),
        local(
            &["t"],
            vec![Expr::Table(vec![
                TableItem::Named("a".into(), num(1.0)),
                TableItem::Keyed(s("b c"), num(2.0)),
                TableItem::Keyed(bin(BinOp::Add, n("k"), num(1.0)), Expr::Table(vec![TableItem::Pos(Expr::Table(vec![]))])),
                TableItem::Pos(call(n("f"), vec![])),
                TableItem::Named("fn".into(), func(&["x"], false, vec![Stmt::Return(vec![n("x")])])),
                TableItem::Keyed(Expr::Str { raw: "[[long]]".into(), value: b"long".to_vec() }, Expr::True),
                TableItem::Pos(marker()),
            ])],
        ),
        local(&["u"], vec![index(n("t"), Expr::Str { raw: "[==[k]==]".into(), value: b"k".to_vec() })]),
        local(&["v"], vec![index(n("t"), s("k2")), index(index(n("t"), num(1.0)), num(2.0))]),
        local(&["w"], vec![field(Expr::Table(vec![TableItem::Named("x".into(), num(1.0))]), "x"), un(UnOp::Len, Expr::Table(vec![TableItem::Pos(num(1.0))]))]),
    ]));

    // 7: operators
    c.push(blk(vec![
        local(&["a"], vec![bin(BinOp::Add, bin(BinOp::Mul, n("x"), n("y")), bin(BinOp::Div, n("z"), bin(BinOp::Sub, n("w"), num(1.0))))]),
        local(&["b"], vec![bin(BinOp::Concat, s("a"), bin(BinOp::Concat, num(1.0), bin(BinOp::Concat, num(2.0), n("z"))))]),
        local(&["c"], vec![bin(BinOp::Concat, bin(BinOp::Concat, n("a"), n("b")), num(0.5))]),
        local(&["d"], vec![bin(BinOp::Or, bin(BinOp::And, n("a"), n("b")), un(UnOp::Not, n("c")))]),
        local(&["e"], vec![bin(BinOp::And, bin(BinOp::Or, n("a"), n("b")), bin(BinOp::Or, n("c"), n("d")))]),
        local(&["f"], vec![bin(BinOp::Eq, bin(BinOp::Lt, n("a"), n("b")), bin(BinOp::Ge, n("c"), n("d")))]),
        local(&["g"], vec![bin(BinOp::Ne, n("a"), bin(BinOp::Le, n("b"), bin(BinOp::Gt, n("c"), n("d"))))]),
        local(&["h"], vec![un(UnOp::Neg, bin(BinOp::Pow, n("a"), n("b"))), bin(BinOp::Pow, un(UnOp::Neg, n("a")), n("b"))]),
        local(&["i"], vec![bin(BinOp::Pow, num(2.0), bin(BinOp::Pow, num(3.0), num(2.0))), bin(BinOp::Pow, bin(BinOp::Pow, num(2.0), num(3.0)), num(2.0))]),
        local(&["j"], vec![un(UnOp::Neg, un(UnOp::Neg, n("x"))), bin(BinOp::Sub, n("a"), un(UnOp::Neg, n("b"))), un(UnOp::Not, un(UnOp::Not, n("x")))]),
        local(&["k"], vec![un(UnOp::Len, n("t")), un(UnOp::Neg, un(UnOp::Len, n("t"))), un(UnOp::Len, s("abc")), bin(BinOp::Mod, n("a"), n("b"))]),
        local(&["l"], vec![un(UnOp::Neg, bin(BinOp::Add, n("a"), n("b"))), un(UnOp::Not, bin(BinOp::Eq, n("a"), n("b")))]),
        local(&["m"], vec![bin(BinOp::Pow, num(2.0), un(UnOp::Neg, num(3.0))), bin(BinOp::Sub, num(1.0), num(2.0)), bin(BinOp::Concat, num(1.0), num(2.0))]),
        local(&["n"], vec![paren(n("a")), paren(call(n("f"), vec![])), paren(paren(bin(BinOp::Add, n("a"), n("b"))))]),
        local(&["o"], vec![bin(BinOp::Add, call(n("f"), vec![]), mcall(n("o"), "m", vec![])), bin(BinOp::Concat, func(&[], false, vec![]), n("x"))]),
        local(&["p"], vec![bin(BinOp::Lt, un(UnOp::Neg, n("a")), un(UnOp::Neg, n("b"))), bin(BinOp::Sub, bin(BinOp::Sub, n("a"), n("b")), n("c")), bin(BinOp::Sub, n("a"), bin(BinOp::Sub, n("b"), n("c")))]),
    ]));

    // 8: prefixes that need parentheses
    c.push(blk(vec![
        local(&["a"], vec![mcall(s("%d"), "format", vec![num(1.0)])]),
        local(&["b"], vec![field(Expr::Table(vec![TableItem::Named("x".into(), num(1.0))]), "x")]),
        local(&["c"], vec![call(func(&["x"], false, vec![Stmt::Return(vec![n("x")])]), vec![num(1.0)])]),
        local(&["d"], vec![index(bin(BinOp::Or, n("a"), n("b")), num(1.0))]),
        local(&["e"], vec![mcall(num(5.0), "m", vec![]), field(Expr::Nil, "x"), index(un(UnOp::Neg, n("x")), num(1.0))]),
        local(&["f"], vec![call(paren(call(n("f"), vec![])), vec![]), field(paren(Expr::Vararg), "x")]),
        local(&["g"], vec![call(index(n("t"), s("k")), vec![s("arg")]), call(field(n("t"), "k"), vec![Expr::Table(vec![])])]),
    ]));

    // 9: nested blocks with markers
    c.push(blk(vec![
        Stmt::LocalFunction {
            attrs: vec![],
            is_const: false,
            name: "outer".into(),
            func: fbody(
                &["a", "b"],
                false,
                vec![
                    Stmt::If {
                        clauses: vec![(
                            bin(BinOp::Gt, n("a"), n("b")),
                            blk(vec![Stmt::NumFor {
                                var: Binding::new("i"),
                                start: n("a"),
                                limit: n("b"),
                                step: None,
                                body: blk(vec![Stmt::While { cond: n("x"), body: blk(vec![Stmt::Call(call(n("log"), vec![marker(), n("i")])), Stmt::Break]) }]),
                            }]),
                        )],
                        else_: Some(blk(vec![Stmt::Return(vec![marker()])])),
                    },
                    Stmt::Call(call(n("log"), vec![marker()])),
                    Stmt::Return(vec![Expr::Table(vec![TableItem::Pos(marker()), TableItem::Named("at".into(), marker())])]),
                ],
            ),
        },
        Stmt::Call(call(n("outer"), vec![num(1.0), num(2.0)])),
        Stmt::Call(call(n("trace"), vec![marker()])),
    ]));

    // 10: a single return
    c.push(blk(vec![Stmt::Return(vec![bin(BinOp::Add, num(1.0), num(2.0))])]));

    // 11: single statement, no values
    c.push(blk(vec![Stmt::Call(call(n("f"), vec![]))]));

    // 12: strings of all sorts
    c.push(blk(vec![
        local(&["a"], vec![s("simple"), s("with 'single'"), s("with \"double\""), s("both ' and \"")]),
        local(&["b"], vec![s("multi\nline\ntext"), s("tab\tsep"), s("trailing\n"), s("\n")]),
        local(&["c"], vec![s("]]"), s("]=]"), s("[["), s("a]"), s("--[[x]]"), s("\\n")]),
        local(&["d"], vec![Expr::str(vec![0xff, 0xfe, 0x00, 0x80]), Expr::str(vec![0xc3, 0xa9]), Expr::str(vec![0xc3]), s("1\u{0}2")]),
        local(&["e"], vec![s("cr\rlf\r\n"), s("\u{7}\u{8}\u{b}\u{c}"), s("0123456789"), s("\u{2603} snow")]),
        Stmt::Call(call(n("f"), vec![s("arg")])),
        Stmt::Call(call(n("f"), vec![s("multi\nline")])),
        Stmt::Call(mcall(n("o"), "m", vec![s("arg ]] x")])),
        local(&["f"], vec![index(n("t"), s("key")), index(n("t"), s("[[")), Expr::Table(vec![TableItem::Keyed(s("k"), s("v"))])]),
    ]));

    // 13: numbers of all sorts
    c.push(blk(vec![
        local(&["a"], vec![num(0.0), num(1.0), num(7.0), num(10.0), num(100.0), num(1000.0), num(123456.0), num(4294967295.0), num(4294967296.0)]),
        local(&["b"], vec![num(0.5), num(0.25), num(0.1), num(3.14159), num(1234.5), num(1e-7), num(5e-324)]),
        local(&["c"], vec![num(1e15), num(1e16), num(1e100), num(1.7976931348623157e308), num(9007199254740992.0)]),
        local(&["d"], vec![bin(BinOp::Concat, num(1.0), num(2.0)), bin(BinOp::Concat, num(0.5), n("x")), bin(BinOp::Concat, n("x"), num(0.5))]),
        local(&["e"], vec![field(paren(num(1.0)), "x"), bin(BinOp::Sub, num(1.0), un(UnOp::Neg, num(1.0))), un(UnOp::Neg, num(0.0))]),
        Stmt::NumFor { var: Binding::new("i"), start: num(1.0), limit: num(255.0), step: Some(num(16.0)), body: blk(vec![]) },
    ]));

    c
}

include!("tests_corpus_luau.rs");
