//! Expressions.

use super::engine::*;
use super::lit;
use super::walk::*;
use crate::luasyn::ast::*;

/// Use CRLF inside respelled long-bracket strings of CRLF files (the language normalises them to
/// LF).
pub const CRLF_IN_LONG_STRINGS: bool = true;

/// may appear bare in a prefix position (callee / indexed object / receiver)
fn is_prefix_kind(e: &Expr) -> bool {
    matches!(
        e,
        Expr::Name(_) | Expr::Field { .. } | Expr::Index { .. } | Expr::Call { .. } | Expr::MethodCall { .. } | Expr::Paren(_)
    )
}

impl<'t, 'd> Pr<'t, 'd> {
    // ------------------------------------------------------------------ entry points

    /// general position: neutral parentheses may be added
    pub fn expr(&mut self, g: G, e: &Expr) {
        if self.no_wrap == 0 && !e.is_multi() && self.opt(|o| o.redundant_parens) && self.tb(14) {
            self.stat(|s| s.redundant_parens += 1);
            self.tok(g, "(");
            self.expr_bare(G::Tight, e);
            self.tok(G::Tight, ")");
        } else {
            self.expr_bare(g, e);
        }
    }

    fn wrapped(&mut self, g: G, e: &Expr) {
        self.tok(g, "(");
        self.expr_bare(G::Tight, e);
        self.tok(G::Tight, ")");
    }

    fn operand(&mut self, g: G, e: &Expr, need: bool) {
        if need {
            self.wrapped(g, e);
        } else {
            self.expr(g, e);
        }
    }

    /// assignment target / call statement: never wrapped as a whole, never starts with a
    /// neutral `(` when `head`
    pub(super) fn target(&mut self, g: G, e: &Expr, head: bool) {
        self.suffixed(g, e, head);
    }

    /// prefix position
    fn prefix(&mut self, g: G, e: &Expr, head: bool, callee: bool) {
        let bare = is_prefix_kind(e) || (callee && matches!(e, Expr::Instantiate { .. }));
        if !bare {
            self.wrapped(g, e);
            return;
        }
        let plain_kind = matches!(e, Expr::Name(_) | Expr::Field { .. } | Expr::Index { .. });
        if !head && plain_kind && self.no_wrap == 0 && self.opt(|o| o.redundant_parens) && self.tb(8) {
            self.stat(|s| s.redundant_parens += 1);
            self.tok(g, "(");
            self.suffixed(G::Tight, e, false);
            self.tok(G::Tight, ")");
            return;
        }
        self.suffixed(g, e, head);
    }

    /// Name / Field / Index / Call / MethodCall / Paren / Instantiate chains
    fn suffixed(&mut self, g: G, e: &Expr, head: bool) {
        match e {
            Expr::Index { obj, key } => {
                self.prefix(g, obj, head, false);
                self.tok(G::Tight, "[");
                self.expr(G::Tight, key);
                self.tok(G::Tight, "]");
            }
            Expr::Field { obj, name } => {
                self.prefix(g, obj, head, false);
                self.tok(G::Tight, ".");
                self.tok(G::Tight, name);
            }
            Expr::Call { f, args, sugar } => {
                self.prefix(g, f, head, true);
                self.call_args(args, *sugar);
            }
            Expr::MethodCall { obj, name, types, args, sugar } => {
                self.prefix(g, obj, head, false);
                self.tok(G::Tight, ":");
                self.tok(G::Tight, name);
                if let Some(types) = types {
                    self.tok(G::NoNl, "<<");
                    self.type_args(types);
                    self.tok(G::Tight, ">>");
                }
                self.call_args(args, *sugar);
            }
            Expr::Instantiate { expr, types } => {
                if is_prefix_kind(expr) {
                    self.suffixed(g, expr, head);
                } else {
                    self.wrapped(g, expr);
                }
                self.tok(G::NoNl, "<<");
                self.type_args(types);
                self.tok(G::Tight, ">>");
            }
            _ => self.expr_bare(g, e),
        }
    }

    fn call_args(&mut self, args: &[Expr], sugar: CallSugar) {
        let str_ok = args.len() == 1 && matches!(&args[0], Expr::Str { raw, value } if !is_marker(raw, value));
        let tbl_ok = args.len() == 1 && matches!(&args[0], Expr::Table(_));
        let mut use_sugar = match sugar {
            CallSugar::Str => str_ok,
            CallSugar::Table => tbl_ok,
            CallSugar::Parens => false,
        };
        if !use_sugar && (str_ok || tbl_ok) && self.opt(|o| o.call_sugar) && self.tb(70) {
            use_sugar = true;
            self.stat(|s| s.sugar_calls += 1);
        }
        if use_sugar {
            let g = if self.active() && self.tb(100) { G::Tight } else { G::Sp };
            self.expr_bare(g, &args[0]);
            return;
        }
        self.tok(G::NoNl, "(");
        let broken = !args.is_empty() && self.opt(|o| o.multiline) && self.tb(if args.len() >= 2 { 16 } else { 24 });
        if broken {
            self.indent += 1;
        }
        for (i, a) in args.iter().enumerate() {
            if i > 0 {
                self.tok(G::Tight, ",");
            }
            if broken {
                self.brk(0);
            }
            self.expr(if i == 0 || broken { G::Tight } else { G::Sp }, a);
        }
        if broken {
            self.indent -= 1;
            self.brk(0);
        }
        self.tok(G::Tight, ")");
    }

    // ------------------------------------------------------------------ literals

    fn number(&mut self, g: G, raw: &str, value: f64) {
        if !raw.is_empty() {
            self.num_tok(g, raw);
            return;
        }
        let text = if self.opt(|o| o.respell_literals) {
            let luau = self.luau();
            let (s, re) = {
                let l = self.lay.as_mut().unwrap();
                lit::respell_number(value, l.tape, luau)
            };
            if re {
                self.stat(|s| s.respelled += 1);
            }
            s
        } else {
            lit::plain_number(value)
        };
        self.num_tok(g, &text);
    }

    /// string literal; `allow_long`: long brackets are acceptable here
    pub(super) fn string_tok(&mut self, g: G, raw: &str, value: &[u8], allow_long: bool) {
        if !raw.is_empty() {
            self.tok(g, raw);
            return;
        }
        let text = if self.opt(|o| o.respell_literals) {
            let luau = self.luau();
            let (mut s, mut re) = {
                let l = self.lay.as_mut().unwrap();
                lit::respell_string(value, l.tape, luau)
            };
            if s.starts_with('[') {
                if !allow_long {
                    s = lit::plain_string(value);
                    re = false;
                } else {
                    // line ends inside a long bracket are normalised to LF by the language,
                    // so a CRLF file may use CRLF there too
                    let mode = self.lay.as_ref().map_or(0, |l| l.nl_mode);
                    if CRLF_IN_LONG_STRINGS && (mode == 1 || (mode == 2 && self.tb(100))) {
                        s = s.replace('\n', "\r\n");
                    }
                }
            }
            if re {
                self.stat(|s| s.respelled += 1);
            }
            s
        } else {
            lit::plain_string(value)
        };
        self.tok(g, &text);
    }

    fn marker(&mut self, g: G) {
        self.gap(g, "\"");
        let s = format!("\"@L{}\"", self.line);
        self.put(&s);
        self.last = b'"';
        self.last_num = false;
        self.interp_open = false;
        self.allow_gtgt = false;
        self.spaced = false;
    }

    fn interp(&mut self, g: G, segs: &[InterpSeg]) {
        self.tok(g, "`");
        for seg in segs {
            match seg {
                InterpSeg::Str(b) => {
                    let s = lit::interp_segment(b);
                    self.put(&s);
                }
                InterpSeg::Expr(e) => {
                    self.put("{");
                    self.last = b'{';
                    self.last_num = false;
                    self.interp_open = true;
                    // layout liberties apply inside the braces too (comments, line breaks, spaces
                    // after `{`, between the tokens of the value and in front of `}`)
                    self.expr_bare(G::Tight, e);
                    self.gap(G::Tight, "}");
                    self.put("}");
                }
            }
        }
        self.put("`");
        self.last = b'`';
        self.last_num = false;
        self.interp_open = false;
        self.spaced = false;
    }

    // ------------------------------------------------------------------ the big match

    pub(super) fn expr_bare(&mut self, g: G, e: &Expr) {
        match e {
            Expr::Nil => self.tok(g, "nil"),
            Expr::True => self.tok(g, "true"),
            Expr::False => self.tok(g, "false"),
            Expr::Vararg => self.tok(g, "..."),
            Expr::Number { raw, value } => self.number(g, raw, *value),
            Expr::Str { raw, value } => {
                if is_marker(raw, value) {
                    self.marker(g);
                } else {
                    self.string_tok(g, raw, value, true);
                }
            }
            Expr::Interp(segs) => self.interp(g, segs),
            Expr::Name(n) => self.tok(g, n),
            Expr::Index { .. } | Expr::Field { .. } | Expr::Call { .. } | Expr::MethodCall { .. } | Expr::Instantiate { .. } => {
                self.suffixed(g, e, false)
            }
            Expr::Function { attrs, func } => {
                let g = self.attrs(g, attrs);
                self.tok(g, "function");
                self.funcbody(func);
            }
            Expr::Paren(x) => {
                self.tok(g, "(");
                self.expr(G::Tight, x);
                self.tok(G::Tight, ")");
            }
            Expr::Unary(op, x) => {
                self.tok(g, op.symbol());
                let g2 = if *op == UnOp::Not { G::Sp } else { G::Tight };
                self.operand(g2, x, need_unary_operand(x));
            }
            Expr::Binary(op, l, r) => {
                self.operand(g, l, need_left(*op, l));
                self.tok(G::Sp, op.symbol());
                self.operand(G::Sp, r, need_right(*op, r));
            }
            Expr::Table(items) => self.table(g, items),
            Expr::IfExpr { clauses, else_ } => {
                for (i, (c, v)) in clauses.iter().enumerate() {
                    if i == 0 {
                        self.tok(g, "if");
                    } else {
                        self.tok(G::Sp, "elseif");
                    }
                    self.expr(G::Sp, c);
                    self.tok(G::Sp, "then");
                    self.expr(G::Sp, v);
                }
                if clauses.is_empty() {
                    self.tok(g, "if");
                    self.tok(G::Sp, "true");
                    self.tok(G::Sp, "then");
                    self.tok(G::Sp, "nil");
                }
                self.tok(G::Sp, "else");
                self.expr(G::Sp, else_);
            }
            Expr::Cast { expr, ty } => {
                let need = matches!(
                    &**expr,
                    Expr::Binary(..) | Expr::Unary(..) | Expr::IfExpr { .. } | Expr::Function { .. } | Expr::Instantiate { .. } | Expr::Cast { .. }
                );
                self.operand(g, expr, need);
                self.tok(G::Sp, "::");
                self.ty(G::Sp, ty);
            }
        }
    }

    fn table(&mut self, g: G, items: &[TableItem]) {
        self.tok(g, "{");
        let active = self.active();
        let broken = !items.is_empty() && self.opt(|o| o.multiline) && self.tb(24);
        if broken {
            self.indent += 1;
        }
        for (i, it) in items.iter().enumerate() {
            if i > 0 {
                self.table_sep();
            }
            if broken {
                self.brk(0);
            }
            let g = if i == 0 || broken { G::Tight } else { G::Sp };
            match it {
                TableItem::Pos(v) => self.expr(g, v),
                TableItem::Named(n, v) => {
                    self.tok(g, n);
                    self.tok(G::Sp, "=");
                    self.expr(G::Sp, v);
                }
                TableItem::Keyed(k, v) => {
                    self.tok(g, "[");
                    self.expr(G::Tight, k);
                    self.tok(G::Tight, "]");
                    self.tok(G::Sp, "=");
                    self.expr(G::Sp, v);
                }
            }
        }
        if active && !items.is_empty() && self.tb(if broken { 160 } else { 30 }) {
            self.table_sep();
            self.kind(K_TABLE_TRAILING);
        }
        if broken {
            self.indent -= 1;
            self.brk(0);
        }
        self.tok(G::Tight, "}");
    }

    pub(super) fn table_sep(&mut self) {
        if self.opt(|o| o.semicolons) && self.tb(36) {
            self.tok(G::Tight, ";");
            self.kind(K_TABLE_SEMI);
        } else {
            self.tok(G::Tight, ",");
        }
    }
}
