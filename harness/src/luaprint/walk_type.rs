//! Types.

use super::engine::*;
use super::walk::TyCtx;
use crate::luasyn::ast::*;

fn need_type_parens(t: &Type, ctx: TyCtx) -> bool {
    let composite = matches!(t, Type::Function(_) | Type::Union { .. } | Type::Intersection { .. });
    match ctx {
        TyCtx::Top => false,
        TyCtx::UnionMember | TyCtx::OptionalInner => composite,
        TyCtx::InterMember => composite || matches!(t, Type::Optional(_)),
    }
}

impl<'t, 'd> Pr<'t, 'd> {
    pub fn ty(&mut self, g: G, t: &Type) {
        self.ty_in(g, t, TyCtx::Top);
    }

    fn ty_in(&mut self, g: G, t: &Type, ctx: TyCtx) {
        if need_type_parens(t, ctx) {
            self.tok(g, "(");
            self.ty_bare(G::Tight, t);
            self.tok(G::Tight, ")");
        } else {
            self.ty_bare(g, t);
        }
    }

    fn type_name(&mut self, g: G, n: &TypeName) {
        self.tok(g, &n.name);
        if let Some(params) = &n.params {
            self.tok(G::Tight, "<");
            self.type_args(params);
            self.allow_gtgt = true;
            self.tok(G::Tight, ">");
        }
    }

    pub(super) fn type_args(&mut self, args: &[TypeArg]) {
        for (i, a) in args.iter().enumerate() {
            if i > 0 {
                self.tok(G::Tight, ",");
            }
            let g = if i == 0 { G::Tight } else { G::Sp };
            match a {
                TypeArg::Type(t) => self.ty(g, t),
                TypeArg::Pack(p) => self.type_pack(g, p),
                TypeArg::Variadic(t) => {
                    self.tok(g, "...");
                    self.ty(G::Tight, t);
                }
                TypeArg::GenericPack(n) => {
                    self.tok(g, n);
                    self.tok(G::Tight, "...");
                }
            }
        }
    }

    fn pack_tail(&mut self, g: G, t: &VariadicAnnotationPack) {
        match t {
            VariadicAnnotationPack::Variadic(t) => {
                self.tok(g, "...");
                self.ty(G::Tight, t);
            }
            VariadicAnnotationPack::GenericPack(n) => {
                self.tok(g, n);
                self.tok(G::Tight, "...");
            }
        }
    }

    pub(super) fn type_pack(&mut self, g: G, p: &TypePack) {
        self.tok(g, "(");
        let mut first = true;
        for t in &p.types {
            if !first {
                self.tok(G::Tight, ",");
            }
            self.ty(if first { G::Tight } else { G::Sp }, t);
            first = false;
        }
        if let Some(t) = &p.tail {
            if !first {
                self.tok(G::Tight, ",");
            }
            self.pack_tail(if first { G::Tight } else { G::Sp }, t);
        }
        self.tok(G::Tight, ")");
    }

    pub(super) fn ret_type(&mut self, g: G, r: &ReturnType) {
        match r {
            ReturnType::Type(t) => self.ty(g, t),
            ReturnType::Pack(p) => self.type_pack(g, p),
            ReturnType::GenericPack(n) => {
                self.tok(g, n);
                self.tok(G::Tight, "...");
            }
            ReturnType::Variadic(t) => {
                self.tok(g, "...");
                self.ty(G::Tight, t);
            }
        }
    }

    fn access(&mut self, g: G, a: &Option<Access>) -> G {
        match a {
            None => g,
            Some(Access::Read) => {
                self.tok(g, "read");
                G::Sp
            }
            Some(Access::Write) => {
                self.tok(g, "write");
                G::Sp
            }
        }
    }

    fn ty_bare(&mut self, g: G, t: &Type) {
        match t {
            Type::Name(n) => self.type_name(g, n),
            Type::Qualified { namespace, name } => {
                self.tok(g, namespace);
                self.tok(G::Tight, ".");
                self.type_name(G::Tight, name);
            }
            Type::True => self.tok(g, "true"),
            Type::False => self.tok(g, "false"),
            Type::Nil => self.tok(g, "nil"),
            Type::Str(s) => self.string_tok(g, "", s, false),
            Type::Array(t) => {
                self.tok(g, "{");
                self.ty(G::Sp, t);
                self.tok(G::Sp, "}");
            }
            Type::Table(items) => {
                self.tok(g, "{");
                let active = self.active();
                let broken = !items.is_empty() && self.opt(|o| o.multiline) && self.tb(24);
                if broken {
                    self.indent += 1;
                }
                for (i, it) in items.iter().enumerate() {
                    if i > 0 {
                        self.table_sep();
                    }
                    if broken {
                        self.brk(0);
                    }
                    let g = if broken { G::Tight } else { G::Sp };
                    match it {
                        TableTypeItem::Prop { access, name, ty } => {
                            let g = self.access(g, access);
                            self.tok(g, name);
                            self.tok(G::Tight, ":");
                            self.ty(G::Sp, ty);
                        }
                        TableTypeItem::StrProp { access, key, ty } => {
                            let g = self.access(g, access);
                            self.tok(g, "[");
                            self.string_tok(G::Tight, "", key, false);
                            self.tok(G::Tight, "]");
                            self.tok(G::Tight, ":");
                            self.ty(G::Sp, ty);
                        }
                        TableTypeItem::Indexer { access, key, value } => {
                            let g = self.access(g, access);
                            self.tok(g, "[");
                            if matches!(key, Type::Str(_)) {
                                // `["k"]: T` would be a string property
                                self.tok(G::Tight, "(");
                                self.ty(G::Tight, key);
                                self.tok(G::Tight, ")");
                            } else {
                                self.ty(G::Tight, key);
                            }
                            self.tok(G::Tight, "]");
                            self.tok(G::Tight, ":");
                            self.ty(G::Sp, value);
                        }
                    }
                }
                if active && !items.is_empty() && self.tb(if broken { 160 } else { 30 }) {
                    self.table_sep();
                    self.kind(K_TABLE_TRAILING);
                }
                if broken {
                    self.indent -= 1;
                    self.brk(0);
                }
                self.tok(if items.is_empty() || broken { G::Tight } else { G::Sp }, "}");
            }
            Type::Typeof(e) => {
                self.tok(g, "typeof");
                self.tok(G::NoNl, "(");
                self.expr(G::Tight, e);
                self.tok(G::Tight, ")");
            }
            Type::Paren(t) => {
                self.tok(g, "(");
                self.ty(G::Tight, t);
                self.tok(G::Tight, ")");
            }
            Type::Function(f) => {
                let mut g = g;
                if let Some(gen) = &f.generics {
                    // `generics` emits `<` tight; give it our gap instead
                    self.gap(g, "<");
                    self.spaced = true;
                    self.generics(gen);
                    g = G::Tight;
                }
                self.tok(g, "(");
                let mut first = true;
                for (name, t) in &f.params {
                    if !first {
                        self.tok(G::Tight, ",");
                    }
                    let g = if first { G::Tight } else { G::Sp };
                    match name {
                        Some(n) => {
                            self.tok(g, n);
                            self.tok(G::Tight, ":");
                            self.ty(G::Sp, t);
                        }
                        None => self.ty(g, t),
                    }
                    first = false;
                }
                if let Some(v) = &f.variadic {
                    if !first {
                        self.tok(G::Tight, ",");
                    }
                    self.pack_tail(if first { G::Tight } else { G::Sp }, v);
                }
                self.tok(G::Tight, ")");
                self.tok(G::Sp, "->");
                self.ret_type(G::Sp, &f.ret);
            }
            Type::Optional(t) => {
                self.ty_in(g, t, TyCtx::OptionalInner);
                self.tok(G::Tight, "?");
            }
            Type::Union { leading, types } => self.join(g, *leading, types, "|", TyCtx::UnionMember),
            Type::Intersection { leading, types } => self.join(g, *leading, types, "&", TyCtx::InterMember),
        }
    }

    fn join(&mut self, g: G, leading: bool, types: &[Type], sym: &str, ctx: TyCtx) {
        let mut g = g;
        if leading {
            self.tok(g, sym);
            g = G::Sp;
        }
        for (i, t) in types.iter().enumerate() {
            if i > 0 {
                self.tok(G::Sp, sym);
                g = G::Sp;
            }
            self.ty_in(g, t, ctx);
        }
    }
}
