//! Normalisation for round-trip comparison: remove every `Expr::Paren` whose content is not
//! a call / method call / `...` (those truncate multiple values and are meaningful), and
//! every `Type::Paren`.  `unmark_lines` turns printed line markers `"@L<n>"` back into `"@L"`.

use crate::luasyn::ast::*;

#[derive(Clone, Copy)]
struct M {
    parens: bool,
    markers: bool,
    erase: bool,
}

pub fn strip_neutral_parens(b: &Block) -> Block {
    block(M { parens: true, markers: false, erase: false }, b)
}

pub fn strip_neutral_parens_expr(e: &Expr) -> Expr {
    expr(M { parens: true, markers: false, erase: false }, e)
}

pub fn strip_type_parens(t: &Type) -> Type {
    ty(M { parens: true, markers: false, erase: false }, t)
}

/// replace every string literal whose value is `@L<digits>` by the bare marker `@L`
pub fn unmark_lines(b: &Block) -> Block {
    block(M { parens: false, markers: true, erase: false }, b)
}

/// forget source spellings (`raw` of literals) and call sugar; for readable diffs
pub fn erase_spelling(b: &Block) -> Block {
    block(M { parens: false, markers: false, erase: true }, b)
}

fn block(m: M, b: &Block) -> Block {
    Block { stmts: b.stmts.iter().map(|x| stmt(m, x)).collect() }
}

fn is_printed_marker(v: &[u8]) -> bool {
    v.len() > 2 && v.starts_with(b"@L") && v[2..].iter().all(|b| b.is_ascii_digit())
}

fn exprs(m: M, v: &[Expr]) -> Vec<Expr> {
    v.iter().map(|x| expr(m, x)).collect()
}

fn binding(m: M, b: &Binding) -> Binding {
    Binding { name: b.name.clone(), ty: b.ty.as_ref().map(|x| ty(m, x)) }
}

fn bindings(m: M, v: &[Binding]) -> Vec<Binding> {
    v.iter().map(|x| binding(m, x)).collect()
}

fn attr(m: M, a: &Attribute) -> Attribute {
    match a {
        Attribute::Name(n) => Attribute::Name(n.clone()),
        Attribute::Group(els) => Attribute::Group(
            els.iter()
                .map(|el| AttributeElement {
                    name: el.name.clone(),
                    args: el.args.as_ref().map(|a| match a {
                        AttributeArgs::Tuple(es) => AttributeArgs::Tuple(exprs(m, es)),
                        AttributeArgs::Str(s) => AttributeArgs::Str(s.clone()),
                        AttributeArgs::Table(e) => AttributeArgs::Table(expr(m, e)),
                    }),
                })
                .collect(),
        ),
    }
}

fn attrs(m: M, v: &[Attribute]) -> Vec<Attribute> {
    v.iter().map(|x| attr(m, x)).collect()
}

fn func(m: M, f: &FuncBody) -> FuncBody {
    FuncBody {
        generics: f.generics.clone(),
        params: bindings(m, &f.params),
        vararg: f.vararg,
        vararg_ty: f.vararg_ty.as_ref().map(|v| {
            Box::new(match &**v {
                VariadicAnnotation::Type(t) => VariadicAnnotation::Type(ty(m, t)),
                VariadicAnnotation::GenericPack(n) => VariadicAnnotation::GenericPack(n.clone()),
            })
        }),
        ret_ty: f.ret_ty.as_ref().map(|r| Box::new(ret(m, r))),
        body: block(m, &f.body),
    }
}

fn stmt(m: M, s: &Stmt) -> Stmt {
    match s {
        Stmt::Local { is_const, names, values } => {
            Stmt::Local { is_const: *is_const, names: bindings(m, names), values: exprs(m, values) }
        }
        Stmt::Assign { targets, values } => Stmt::Assign { targets: exprs(m, targets), values: exprs(m, values) },
        Stmt::CompoundAssign { target, op, value } => {
            Stmt::CompoundAssign { target: expr(m, target), op: *op, value: expr(m, value) }
        }
        Stmt::Call(e) => Stmt::Call(expr(m, e)),
        Stmt::Do(b) => Stmt::Do(block(m, b)),
        Stmt::While { cond, body } => Stmt::While { cond: expr(m, cond), body: block(m, body) },
        Stmt::Repeat { body, cond } => Stmt::Repeat { body: block(m, body), cond: expr(m, cond) },
        Stmt::If { clauses, else_ } => Stmt::If {
            clauses: clauses.iter().map(|(c, b)| (expr(m, c), block(m, b))).collect(),
            else_: else_.as_ref().map(|x| block(m, x)),
        },
        Stmt::NumFor { var, start, limit, step, body } => Stmt::NumFor {
            var: binding(m, var),
            start: expr(m, start),
            limit: expr(m, limit),
            step: step.as_ref().map(|x| expr(m, x)),
            body: block(m, body),
        },
        Stmt::GenFor { vars, exprs: es, body } => {
            Stmt::GenFor { vars: bindings(m, vars), exprs: exprs(m, es), body: block(m, body) }
        }
        Stmt::Function { attrs: a, name, func: f } => {
            Stmt::Function { attrs: attrs(m, a), name: name.clone(), func: func(m, f) }
        }
        Stmt::LocalFunction { attrs: a, is_const, name, func: f } => {
            Stmt::LocalFunction { attrs: attrs(m, a), is_const: *is_const, name: name.clone(), func: func(m, f) }
        }
        Stmt::Return(es) => Stmt::Return(exprs(m, es)),
        Stmt::Break => Stmt::Break,
        Stmt::Continue => Stmt::Continue,
        Stmt::TypeDecl { export, name, generics, ty: t } => Stmt::TypeDecl {
            export: *export,
            name: name.clone(),
            generics: generics.as_ref().map(|x| generics_with_defaults(m, x)),
            ty: ty(m, t),
        },
        Stmt::TypeFunction { export, name, func: f } => {
            Stmt::TypeFunction { export: *export, name: name.clone(), func: func(m, f) }
        }
    }
}

fn expr(m: M, e: &Expr) -> Expr {
    match e {
        Expr::Nil | Expr::True | Expr::False | Expr::Vararg => e.clone(),
        Expr::Str { value, .. } if m.markers && is_printed_marker(value) => Expr::str(b"@L".to_vec()),
        // a literal too large for a double is infinite; the generators write it `(1/0)`, the same
        // value: for the round-trip comparison both are the division
        Expr::Number { value, .. } if m.parens && value.is_infinite() => Expr::Binary(BinOp::Div, Box::new(Expr::num(1.0)), Box::new(Expr::num(0.0))),
        Expr::Number { value, .. } if m.erase => Expr::num(*value),
        Expr::Str { value, .. } if m.erase => Expr::str(value.clone()),
        Expr::Number { .. } | Expr::Str { .. } | Expr::Name(_) => e.clone(),
        Expr::Interp(segs) => Expr::Interp(
            segs.iter()
                .map(|s| match s {
                    InterpSeg::Str(b) => InterpSeg::Str(b.clone()),
                    InterpSeg::Expr(e) => InterpSeg::Expr(expr(m, e)),
                })
                .collect(),
        ),
        Expr::Index { obj, key } => Expr::Index { obj: Box::new(expr(m, obj)), key: Box::new(expr(m, key)) },
        Expr::Field { obj, name } => Expr::Field { obj: Box::new(expr(m, obj)), name: name.clone() },
        Expr::Call { f, args, sugar } => Expr::Call { f: Box::new(expr(m, f)), args: exprs(m, args), sugar: if m.erase { CallSugar::Parens } else { *sugar } },
        Expr::MethodCall { obj, name, types, args, sugar } => {
            Expr::MethodCall { obj: Box::new(expr(m, obj)), name: name.clone(), types: types.as_ref().map(|t| type_args(m, t)), args: exprs(m, args), sugar: if m.erase { CallSugar::Parens } else { *sugar } }
        }
        Expr::Function { attrs: a, func: f } => Expr::Function { attrs: attrs(m, a), func: Box::new(func(m, f)) },
        Expr::Paren(inner) => {
            let inner = expr(m, inner);
            if inner.is_multi() || !m.parens {
                Expr::Paren(Box::new(inner))
            } else {
                inner
            }
        }
        Expr::Unary(op, x) => Expr::Unary(*op, Box::new(expr(m, x))),
        Expr::Binary(op, l, r) => Expr::Binary(*op, Box::new(expr(m, l)), Box::new(expr(m, r))),
        Expr::Table(items) => Expr::Table(
            items
                .iter()
                .map(|it| match it {
                    TableItem::Pos(v) => TableItem::Pos(expr(m, v)),
                    TableItem::Named(n, v) => TableItem::Named(n.clone(), expr(m, v)),
                    TableItem::Keyed(k, v) => TableItem::Keyed(expr(m, k), expr(m, v)),
                })
                .collect(),
        ),
        Expr::IfExpr { clauses, else_ } => Expr::IfExpr {
            clauses: clauses.iter().map(|(c, v)| (expr(m, c), expr(m, v))).collect(),
            else_: Box::new(expr(m, else_)),
        },
        Expr::Cast { expr: x, ty: t } => Expr::Cast { expr: Box::new(expr(m, x)), ty: Box::new(ty(m, t)) },
        Expr::Instantiate { expr: x, types } => {
            Expr::Instantiate { expr: Box::new(expr(m, x)), types: type_args(m, types) }
        }
    }
}

// ----------------------------------------------------------------------------------- types

fn type_args(m: M, v: &[TypeArg]) -> Vec<TypeArg> {
    v.iter()
        .map(|a| match a {
            TypeArg::Type(t) => TypeArg::Type(ty(m, t)),
            TypeArg::Pack(p) => TypeArg::Pack(pack(m, p)),
            TypeArg::Variadic(t) => TypeArg::Variadic(Box::new(ty(m, t))),
            TypeArg::GenericPack(n) => TypeArg::GenericPack(n.clone()),
        })
        .collect()
}

fn tail(m: M, t: &VariadicAnnotationPack) -> VariadicAnnotationPack {
    match t {
        VariadicAnnotationPack::Variadic(t) => VariadicAnnotationPack::Variadic(ty(m, t)),
        VariadicAnnotationPack::GenericPack(n) => VariadicAnnotationPack::GenericPack(n.clone()),
    }
}

fn pack(m: M, p: &TypePack) -> TypePack {
    TypePack { types: p.types.iter().map(|x| ty(m, x)).collect(), tail: p.tail.as_ref().map(|t| Box::new(tail(m, t))) }
}

fn ret(m: M, r: &ReturnType) -> ReturnType {
    match r {
        ReturnType::Type(t) => ReturnType::Type(ty(m, t)),
        ReturnType::Pack(p) => ReturnType::Pack(pack(m, p)),
        ReturnType::GenericPack(n) => ReturnType::GenericPack(n.clone()),
        ReturnType::Variadic(t) => ReturnType::Variadic(ty(m, t)),
    }
}

fn type_name(m: M, n: &TypeName) -> TypeName {
    TypeName { name: n.name.clone(), params: n.params.as_ref().map(|p| type_args(m, p)) }
}

fn generics_with_defaults(m: M, g: &GenericsWithDefaults) -> GenericsWithDefaults {
    GenericsWithDefaults {
        types: g.types.iter().map(|(n, d)| (n.clone(), d.as_ref().map(|x| ty(m, x)))).collect(),
        packs: g
            .packs
            .iter()
            .map(|(n, d)| {
                (
                    n.clone(),
                    d.as_ref().map(|d| match d {
                        GenericPackDefault::Pack(p) => GenericPackDefault::Pack(pack(m, p)),
                        GenericPackDefault::Variadic(t) => GenericPackDefault::Variadic(ty(m, t)),
                        GenericPackDefault::GenericPack(n) => GenericPackDefault::GenericPack(n.clone()),
                    }),
                )
            })
            .collect(),
    }
}

fn ty(m: M, t: &Type) -> Type {
    match t {
        Type::Name(n) => Type::Name(type_name(m, n)),
        Type::Qualified { namespace, name } => {
            Type::Qualified { namespace: namespace.clone(), name: type_name(m, name) }
        }
        Type::True | Type::False | Type::Nil | Type::Str(_) => t.clone(),
        Type::Array(t) => Type::Array(Box::new(ty(m, t))),
        Type::Table(items) => Type::Table(
            items
                .iter()
                .map(|it| match it {
                    TableTypeItem::Prop { access, name, ty: t } => {
                        TableTypeItem::Prop { access: *access, name: name.clone(), ty: ty(m, t) }
                    }
                    TableTypeItem::StrProp { access, key, ty: t } => {
                        TableTypeItem::StrProp { access: *access, key: key.clone(), ty: ty(m, t) }
                    }
                    TableTypeItem::Indexer { access, key, value } => {
                        TableTypeItem::Indexer { access: *access, key: ty(m, key), value: ty(m, value) }
                    }
                })
                .collect(),
        ),
        Type::Typeof(e) => Type::Typeof(Box::new(expr(m, e))),
        Type::Paren(t) if m.parens => ty(m, t),
        Type::Paren(t) => Type::Paren(Box::new(ty(m, t))),
        Type::Function(f) => Type::Function(Box::new(FunctionType {
            generics: f.generics.clone(),
            params: f.params.iter().map(|(n, t)| (n.clone(), ty(m, t))).collect(),
            variadic: f.variadic.as_ref().map(|t| Box::new(tail(m, t))),
            ret: Box::new(ret(m, &f.ret)),
        })),
        Type::Optional(t) => Type::Optional(Box::new(ty(m, t))),
        Type::Union { leading, types } => Type::Union { leading: *leading, types: types.iter().map(|x| ty(m, x)).collect() },
        Type::Intersection { leading, types } => {
            Type::Intersection { leading: *leading, types: types.iter().map(|x| ty(m, x)).collect() }
        }
    }
}
