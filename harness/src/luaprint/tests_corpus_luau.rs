// included by tests_corpus.rs

pub fn cast(e: Expr, t: Type) -> Expr {
    Expr::Cast { expr: bx(e), ty: Box::new(t) }
}
pub fn ifx(c: Expr, a: Expr, b: Expr) -> Expr {
    Expr::IfExpr { clauses: vec![(c, a)], else_: bx(b) }
}
pub fn tfn(params: Vec<(Option<String>, Type)>, ret: ReturnType) -> Type {
    Type::Function(Box::new(FunctionType { generics: None, params, variadic: None, ret: Box::new(ret) }))
}
pub fn union(types: Vec<Type>) -> Type {
    Type::Union { leading: false, types }
}
pub fn inter(types: Vec<Type>) -> Type {
    Type::Intersection { leading: false, types }
}
pub fn opt(t: Type) -> Type {
    Type::Optional(Box::new(t))
}
pub fn tdecl(name: &str, ty: Type) -> Stmt {
    Stmt::TypeDecl { export: false, name: name.into(), generics: None, ty }
}
pub fn unit_pack() -> ReturnType {
    ReturnType::Pack(TypePack { types: vec![], tail: None })
}

/// blocks that use Luau constructs
pub fn corpus_luau() -> Vec<Block> {
    let mut c = Vec::new();
    let number = || tname("number");
    let string = || tname("string");

    // 0: compound assignment, continue, floor division
    c.push(blk(vec![
        Stmt::CompoundAssign { target: n("a"), op: BinOp::Add, value: num(1.0) },
        Stmt::CompoundAssign { target: field(n("a"), "b"), op: BinOp::Sub, value: n("x") },
        Stmt::CompoundAssign { target: index(n("t"), num(1.0)), op: BinOp::Mul, value: num(2.0) },
        Stmt::CompoundAssign { target: n("a"), op: BinOp::Div, value: num(2.0) },
        Stmt::CompoundAssign { target: n("a"), op: BinOp::IDiv, value: num(2.0) },
        Stmt::CompoundAssign { target: n("a"), op: BinOp::Mod, value: num(2.0) },
        Stmt::CompoundAssign { target: n("a"), op: BinOp::Pow, value: num(2.0) },
        Stmt::CompoundAssign { target: n("s"), op: BinOp::Concat, value: s("x") },
        Stmt::CompoundAssign { target: field(paren(n("p")), "q"), op: BinOp::Add, value: num(1.0) },
        local(&["q"], vec![bin(BinOp::IDiv, n("a"), n("b")), bin(BinOp::IDiv, bin(BinOp::Div, n("a"), n("b")), n("c"))]),
        Stmt::While { cond: Expr::True, body: blk(vec![Stmt::If { clauses: vec![(n("x"), blk(vec![Stmt::Continue]))], else_: None }, Stmt::Break]) },
        Stmt::NumFor { var: Binding::new("i"), start: num(1.0), limit: num(2.0), step: None, body: blk(vec![Stmt::Continue]) },
    ]));

    // 1: if-expressions
    c.push(blk(vec![
        local(&["a"], vec![ifx(n("c"), num(1.0), num(2.0))]),
        local(&["b"], vec![Expr::IfExpr { clauses: vec![(n("c"), num(1.0)), (n("d"), num(2.0)), (n("e"), num(3.0))], else_: bx(num(4.0)) }]),
        local(&["c"], vec![bin(BinOp::Add, ifx(n("c"), num(1.0), num(2.0)), num(3.0))]),
        local(&["d"], vec![bin(BinOp::Add, num(3.0), ifx(n("c"), num(1.0), num(2.0)))]),
        local(&["e"], vec![bin(BinOp::Add, bin(BinOp::Mul, n("x"), ifx(n("c"), num(1.0), num(2.0))), num(3.0))]),
        local(&["f"], vec![un(UnOp::Neg, ifx(n("c"), num(1.0), num(2.0))), un(UnOp::Not, ifx(n("c"), n("x"), n("y")))]),
        local(&["g"], vec![ifx(ifx(n("a"), n("b"), n("c")), ifx(n("d"), n("e"), n("f")), ifx(n("g"), n("h"), n("i")))]),
        local(&["h"], vec![call(n("f"), vec![ifx(n("c"), num(1.0), num(2.0)), num(3.0)]), Expr::Table(vec![TableItem::Pos(ifx(n("c"), num(1.0), num(2.0))), TableItem::Pos(num(9.0))])]),
        local(&["i"], vec![field(ifx(n("c"), n("t"), n("u")), "x"), call(ifx(n("c"), n("f"), n("g")), vec![])]),
        local(&["j"], vec![bin(BinOp::Pow, n("a"), ifx(n("c"), num(1.0), num(2.0))), bin(BinOp::Lt, un(UnOp::Neg, bin(BinOp::Pow, n("a"), ifx(n("c"), num(1.0), num(2.0)))), n("z"))]),
        Stmt::Return(vec![ifx(n("c"), marker(), marker())]),
    ]));

    // 2: casts
    c.push(blk(vec![
        local(&["a"], vec![cast(n("x"), number())]),
        local(&["b"], vec![cast(bin(BinOp::Add, n("x"), n("y")), number()), bin(BinOp::Add, n("x"), cast(n("y"), number()))]),
        local(&["c"], vec![bin(BinOp::Add, cast(n("x"), number()), n("y")), bin(BinOp::Lt, cast(n("x"), number()), n("y"))]),
        local(&["d"], vec![cast(cast(n("x"), tname("any")), number()), cast(un(UnOp::Neg, n("x")), number()), un(UnOp::Neg, cast(n("x"), number()))]),
        local(&["e"], vec![cast(ifx(n("c"), num(1.0), num(2.0)), number()), cast(func(&[], false, vec![]), tname("any"))]),
        local(&["f"], vec![field(cast(n("x"), tname("T")), "y"), call(cast(n("f"), tname("any")), vec![]), mcall(cast(n("o"), tname("any")), "m", vec![])]),
        local(&["g"], vec![cast(Expr::Table(vec![]), Type::Table(vec![])), cast(s("str"), Type::Str(b"str".to_vec())), cast(num(1.0), tname("any")), cast(call(n("f"), vec![]), string())]),
        local(&["h"], vec![bin(BinOp::Gt, bin(BinOp::Lt, n("a"), cast(n("b"), tname("T"))), n("c")), bin(BinOp::Lt, bin(BinOp::Add, n("a"), cast(n("x"), tgen("G", vec![TypeArg::Type(number())]))), n("y"))]),
        local(&["i"], vec![cast(n("x"), union(vec![number(), string()])), cast(n("x"), opt(number())), Expr::Table(vec![TableItem::Pos(cast(n("x"), number())), TableItem::Pos(n("y"))])]),
        Stmt::If { clauses: vec![(cast(n("x"), tname("boolean")), blk(vec![]))], else_: None },
        assign(vec![field(cast(n("x"), tname("any")), "f")], vec![num(1.0)]),
    ]));

    // 3: interpolated strings
    c.push(blk(vec![
        local(&["a"], vec![Expr::Interp(vec![])]),
        local(&["b"], vec![Expr::Interp(vec![InterpSeg::Str(b"plain".to_vec())])]),
        local(&["c"], vec![Expr::Interp(vec![InterpSeg::Str(b"x = ".to_vec()), InterpSeg::Expr(n("x")), InterpSeg::Str(b", y = ".to_vec()), InterpSeg::Expr(bin(BinOp::Add, n("y"), num(1.0))), InterpSeg::Str(b"!".to_vec())])]),
        local(&["d"], vec![Expr::Interp(vec![InterpSeg::Expr(Expr::Table(vec![TableItem::Pos(num(1.0))])), InterpSeg::Expr(n("b"))])]),
        local(&["e"], vec![Expr::Interp(vec![InterpSeg::Str(b"esc ` \\ { } \n \t \" ' \xff \xc3\xa9".to_vec()), InterpSeg::Expr(Expr::Interp(vec![InterpSeg::Str(b"in".to_vec()), InterpSeg::Expr(n("z"))]))])]),
        local(&["f"], vec![Expr::Interp(vec![InterpSeg::Expr(call(n("f"), vec![s("}")])), InterpSeg::Str(b" ".to_vec()), InterpSeg::Expr(ifx(n("c"), s("a"), s("b")))])]),
        Stmt::Call(call(n("print"), vec![Expr::Interp(vec![InterpSeg::Str(b"at ".to_vec()), InterpSeg::Expr(marker())])])),
        local(&["g"], vec![mcall(Expr::Interp(vec![InterpSeg::Str(b"x".to_vec())]), "upper", vec![])]),
    ]));

    // 4: annotated locals and functions
    c.push(blk(vec![
        Stmt::Local { is_const: false, names: vec![typed("a", number())], values: vec![num(1.0)] },
        Stmt::Local { is_const: false, names: vec![typed("a", number()), Binding::new("b"), typed("c", opt(string()))], values: vec![] },
        Stmt::Local { is_const: false, names: vec![typed("a", tgen("Array", vec![TypeArg::Type(number())]))], values: vec![Expr::Table(vec![])] },
        Stmt::Local { is_const: false, names: vec![typed("a", tgen("Map", vec![TypeArg::Type(string()), TypeArg::Type(tgen("Array", vec![TypeArg::Type(tgen("Set", vec![TypeArg::Type(number())]))]))]))], values: vec![Expr::Nil] },
        Stmt::Local { is_const: true, names: vec![Binding::new("K")], values: vec![num(1.0)] },
        Stmt::Local { is_const: true, names: vec![typed("K2", string())], values: vec![s("v")] },
        Stmt::LocalFunction {
            attrs: vec![],
            is_const: false,
            name: "f".into(),
            func: FuncBody {
                generics: Some(Generics { types: vec!["T".into(), "U".into()], packs: vec!["P".into()] }),
                params: vec![typed("a", tname("T")), Binding::new("b"), typed("c", tfn(vec![(None, tname("U"))], ReturnType::Type(tname("T"))))],
                vararg: true,
                vararg_ty: Some(Box::new(VariadicAnnotation::Type(number()))),
                ret_ty: Some(Box::new(ReturnType::Type(tname("T")))),
                body: blk(vec![Stmt::Return(vec![n("a")])]),
            },
        },
        Stmt::LocalFunction {
            attrs: vec![],
            is_const: true,
            name: "g".into(),
            func: FuncBody {
                generics: Some(Generics { types: vec![], packs: vec!["P".into()] }),
                params: vec![],
                vararg: true,
                vararg_ty: Some(Box::new(VariadicAnnotation::GenericPack("P".into()))),
                ret_ty: Some(Box::new(ReturnType::GenericPack("P".into()))),
                body: blk(vec![Stmt::Return(vec![Expr::Vararg])]),
            },
        },
        Stmt::Function {
            attrs: vec![],
            name: FuncName { base: "M".into(), fields: vec![], method: Some("m".into()) },
            func: FuncBody {
                generics: None,
                params: vec![typed("x", number())],
                vararg: false,
                vararg_ty: None,
                ret_ty: Some(Box::new(ReturnType::Pack(TypePack { types: vec![number(), string()], tail: Some(Box::new(VariadicAnnotationPack::Variadic(tname("any")))) }))),
                body: blk(vec![Stmt::Call(call(paren(n("x")), vec![]))]),
            },
        },
        local(
            &["h"],
            vec![Expr::Function {
                attrs: vec![],
                func: Box::new(FuncBody {
                    generics: Some(Generics { types: vec!["T".into()], packs: vec![] }),
                    params: vec![typed("x", tname("T"))],
                    vararg: false,
                    vararg_ty: None,
                    ret_ty: Some(Box::new(ReturnType::Variadic(tname("T")))),
                    body: blk(vec![Stmt::Return(vec![n("x")])]),
                }),
            }],
        ),
        Stmt::Function {
            attrs: vec![],
            name: FuncName { base: "r".into(), fields: vec![], method: None },
            func: FuncBody {
                generics: None,
                params: vec![],
                vararg: false,
                vararg_ty: None,
                ret_ty: Some(Box::new(ReturnType::Type(tfn(vec![], unit_pack())))),
                body: blk(vec![]),
            },
        },
        Stmt::NumFor { var: typed("i", number()), start: num(1.0), limit: num(2.0), step: None, body: blk(vec![]) },
        Stmt::GenFor { vars: vec![typed("k", string()), typed("v", tname("any"))], exprs: vec![n("t")], body: blk(vec![]) },
    ]));

    // 5: type declarations, every type form
    c.push(blk(vec![
        tdecl("A", number()),
        Stmt::TypeDecl { export: true, name: "B".into(), generics: None, ty: string() },
        tdecl("C", Type::Qualified { namespace: "ns".into(), name: TypeName { name: "T".into(), params: None } }),
        tdecl("D", Type::Qualified { namespace: "ns".into(), name: TypeName { name: "G".into(), params: Some(vec![TypeArg::Type(number())]) } }),
        tdecl("E", union(vec![Type::True, Type::False, Type::Nil, Type::Str(b"lit".to_vec()), Type::Str(b"q\"'\n".to_vec())])),
        tdecl("F", Type::Array(Box::new(number()))),
        tdecl("G", Type::Table(vec![])),
        tdecl(
            "H",
            Type::Table(vec![
                TableTypeItem::Prop { access: None, name: "x".into(), ty: number() },
                TableTypeItem::Prop { access: Some(Access::Read), name: "y".into(), ty: string() },
                TableTypeItem::Prop { access: Some(Access::Write), name: "z".into(), ty: opt(number()) },
                TableTypeItem::StrProp { access: None, key: b"key with space".to_vec(), ty: number() },
                TableTypeItem::StrProp { access: Some(Access::Read), key: b"k".to_vec(), ty: number() },
                TableTypeItem::Indexer { access: None, key: string(), value: tname("any") },
            ]),
        ),
        tdecl("I", Type::Table(vec![TableTypeItem::Indexer { access: Some(Access::Read), key: number(), value: string() }])),
        tdecl("J", Type::Typeof(bx(call(n("f"), vec![num(1.0)])))),
        tdecl("K", Type::Paren(Box::new(number()))),
        tdecl("L", tfn(vec![], unit_pack())),
        tdecl("M", tfn(vec![(Some("a".into()), number()), (None, string())], ReturnType::Type(tname("boolean")))),
        tdecl(
            "N",
            Type::Function(Box::new(FunctionType {
                generics: Some(Generics { types: vec!["T".into()], packs: vec!["P".into()] }),
                params: vec![(None, tname("T"))],
                variadic: Some(Box::new(VariadicAnnotationPack::GenericPack("P".into()))),
                ret: Box::new(ReturnType::GenericPack("P".into())),
            })),
        ),
        tdecl(
            "O",
            Type::Function(Box::new(FunctionType {
                generics: None,
                params: vec![],
                variadic: Some(Box::new(VariadicAnnotationPack::Variadic(number()))),
                ret: Box::new(ReturnType::Variadic(string())),
            })),
        ),
        tdecl("P", tfn(vec![(None, number())], ReturnType::Pack(TypePack { types: vec![number(), string()], tail: None }))),
        tdecl("Q", tfn(vec![], ReturnType::Type(tfn(vec![], ReturnType::Type(tfn(vec![], unit_pack())))))),
        tdecl("R", opt(number())),
        tdecl("S", opt(opt(number()))),
        tdecl("T", opt(union(vec![number(), string()]))),
        tdecl("U", opt(tfn(vec![], unit_pack()))),
        tdecl("V", union(vec![number(), opt(string()), tfn(vec![], ReturnType::Type(number())), tname("X")])),
        tdecl("W", inter(vec![tname("A"), tname("B"), tfn(vec![], unit_pack())])),
        tdecl("X", union(vec![inter(vec![tname("A"), tname("B")]), tname("C"), union(vec![tname("D"), tname("E")])])),
        tdecl("Y", inter(vec![union(vec![tname("A"), tname("B")]), tname("C"), opt(tname("D")), inter(vec![tname("E"), tname("F")])])),
        tdecl("Z", Type::Union { leading: true, types: vec![tname("A"), tname("B")] }),
        tdecl("Z2", Type::Intersection { leading: true, types: vec![tname("A"), tname("B")] }),
        tdecl("Z3", Type::Union { leading: true, types: vec![tname("A")] }),
        tdecl("Z4", tfn(vec![], ReturnType::Type(union(vec![number(), string()])))),
        tdecl("Z5", tfn(vec![], ReturnType::Type(opt(tfn(vec![], unit_pack()))))),
        tdecl("Z6", Type::Array(Box::new(union(vec![tfn(vec![], unit_pack()), Type::Nil])))),
    ]));

    // 6: generic declarations, packs, type functions
    c.push(blk(vec![
        Stmt::TypeDecl {
            export: false,
            name: "A".into(),
            generics: Some(GenericsWithDefaults { types: vec![("T".into(), None), ("U".into(), Some(number()))], packs: vec![] }),
            ty: Type::Table(vec![TableTypeItem::Prop { access: None, name: "a".into(), ty: tname("T") }, TableTypeItem::Prop { access: None, name: "b".into(), ty: tname("U") }]),
        },
        Stmt::TypeDecl {
            export: true,
            name: "B".into(),
            generics: Some(GenericsWithDefaults {
                types: vec![("T".into(), None)],
                packs: vec![
                    ("Q".into(), Some(GenericPackDefault::Variadic(tname("any")))),
                    ("R".into(), Some(GenericPackDefault::Pack(TypePack { types: vec![number(), string()], tail: None }))),
                    ("S".into(), Some(GenericPackDefault::GenericPack("Q".into()))),
                    ("V".into(), Some(GenericPackDefault::Pack(TypePack { types: vec![], tail: None }))),
                ],
            }),
            ty: tfn(vec![(None, tname("T"))], ReturnType::GenericPack("Q".into())),
        },
        Stmt::TypeDecl {
            export: false,
            name: "B2".into(),
            generics: Some(GenericsWithDefaults { types: vec![("T".into(), Some(tgen("A", vec![TypeArg::Type(number())])))], packs: vec![("P".into(), Some(GenericPackDefault::Variadic(number())))] }),
            ty: tname("T"),
        },
        Stmt::TypeDecl {
            export: false,
            name: "B3".into(),
            generics: Some(GenericsWithDefaults { types: vec![("T".into(), None)], packs: vec![("P".into(), None)] }),
            ty: tname("T"),
        },
        tdecl(
            "C",
            tgen(
                "B",
                vec![
                    TypeArg::Type(number()),
                    TypeArg::Pack(TypePack { types: vec![number(), string()], tail: None }),
                    TypeArg::Variadic(Box::new(number())),
                    TypeArg::GenericPack("P".into()),
                    TypeArg::Pack(TypePack { types: vec![], tail: None }),
                    TypeArg::Pack(TypePack { types: vec![number()], tail: Some(Box::new(VariadicAnnotationPack::GenericPack("P".into()))) }),
                ],
            ),
        ),
        tdecl("D", tgen("E", vec![])),
        tdecl("F", tgen("G", vec![TypeArg::Type(tfn(vec![], unit_pack())), TypeArg::Type(union(vec![number(), Type::Nil])), TypeArg::Type(tgen("H", vec![TypeArg::Type(tgen("I", vec![TypeArg::Type(number())]))]))])),
        tdecl("J", tgen("G", vec![TypeArg::Type(Type::Function(Box::new(FunctionType { generics: Some(Generics { types: vec!["T".into()], packs: vec![] }), params: vec![(None, tname("T"))], variadic: None, ret: Box::new(ReturnType::Type(tname("T"))) })))])),
        Stmt::TypeFunction { export: false, name: "tf".into(), func: fbody(&["t"], false, vec![Stmt::Return(vec![n("t")])]) },
        Stmt::TypeFunction { export: true, name: "tg".into(), func: fbody(&[], false, vec![Stmt::Return(vec![field(n("types"), "number")])]) },
        Stmt::Local { is_const: false, names: vec![typed("x", tgen("A", vec![TypeArg::Type(tgen("A", vec![TypeArg::Type(number())]))]))], values: vec![Expr::Nil] },
    ]));

    // 7: attributes and instantiation
    c.push(blk(vec![
        Stmt::Function { attrs: vec![Attribute::Name("native".into())], name: FuncName { base: "f".into(), fields: vec![], method: None }, func: fbody(&[], false, vec![]) },
        Stmt::LocalFunction { attrs: vec![Attribute::Name("native".into()), Attribute::Name("checked".into())], is_const: false, name: "g".into(), func: fbody(&[], false, vec![]) },
        Stmt::LocalFunction {
            attrs: vec![Attribute::Group(vec![
                AttributeElement { name: "native".into(), args: None },
                AttributeElement { name: "deprecated".into(), args: Some(AttributeArgs::Table(Expr::Table(vec![TableItem::Named("use".into(), s("other"))]))) },
            ])],
            is_const: false,
            name: "h".into(),
            func: fbody(&[], false, vec![]),
        },
        local(&["k"], vec![Expr::Function { attrs: vec![Attribute::Name("native".into())], func: Box::new(fbody(&["x"], false, vec![Stmt::Return(vec![n("x")])])) }]),
        local(&["a"], vec![call(Expr::Instantiate { expr: bx(n("f")), types: vec![TypeArg::Type(number())] }, vec![num(1.0)])]),
        local(&["b"], vec![call(Expr::Instantiate { expr: bx(field(n("m"), "f")), types: vec![TypeArg::Type(number()), TypeArg::Type(tgen("A", vec![TypeArg::Type(string())]))] }, vec![])]),
        Stmt::Call(call(Expr::Instantiate { expr: bx(n("f")), types: vec![TypeArg::Type(tname("T"))] }, vec![marker()])),
    ]));

    // 8: typeof with expressions, markers inside types
    c.push(blk(vec![
        Stmt::Local { is_const: false, names: vec![typed("a", Type::Typeof(bx(n("x"))))], values: vec![n("x")] },
        Stmt::Local { is_const: false, names: vec![typed("b", Type::Typeof(bx(Expr::Table(vec![TableItem::Named("k".into(), num(1.0))]))))], values: vec![] },
        local(&["c"], vec![cast(n("x"), Type::Typeof(bx(bin(BinOp::Add, n("y"), num(1.0)))))]),
        tdecl("T", Type::Typeof(bx(call(n("require"), vec![field(n("script"), "Parent")])))),
        Stmt::Call(call(n("f"), vec![cast(marker(), string())])),
    ]));

    c
}
