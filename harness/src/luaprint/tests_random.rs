//! Small tape-driven random tree generator, only for testing the printer.

use super::tests_corpus::*;
use crate::luasyn::ast::*;
use crate::tape::Tape;

const NAMES: &[&str] = &["a", "b", "c", "x", "y", "foo", "_G", "t1", "self", "Z_9", "e", "E", "d", "do_", "x0"];
const NUMS: &[f64] = &[0.0, 1.0, 2.0, 3.5, 0.1, 255.0, 1e10, 1e300, 0.5, 10.0, 100.0, 1e-7, 65536.0, 4294967296.0, 123456789.0, 1e15, 1e16];
const STRS: &[&[u8]] = &[
    b"", b"a", b"hello world", b"line\nbreak", b"\nlead", b"q\"q'q\\q", b"]] ]=]", b"x]", b"[[", b"\r\n", b"\x00\xff", b"caf\xc3\xa9", b"\xe2\x98\x83", b"1", b"--", b"`{}", b"tab\t", b" ", b"@L", b"a]=",
];
const TYPE_NAMES: &[&str] = &["number", "string", "T", "U", "any", "Foo", "boolean"];

pub struct Gen<'a, 'b> {
    pub t: &'a mut Tape<'b>,
    pub luau: bool,
}

impl<'a, 'b> Gen<'a, 'b> {
    fn name(&mut self) -> String {
        NAMES[self.t.choose(NAMES.len())].to_string()
    }

    fn leaf(&mut self) -> Expr {
        match self.t.choose(8) {
            0 => Expr::Nil,
            1 => Expr::True,
            2 => Expr::False,
            3 => Expr::Vararg,
            4 => num(NUMS[self.t.choose(NUMS.len())]),
            5 => Expr::str(STRS[self.t.choose(STRS.len())].to_vec()),
            _ => n(&self.name()),
        }
    }

    /// an expression for a prefix position: a bare `...` cannot stand there (the needed parentheses
    /// would read back as the meaningful `Paren(Vararg)`)
    fn pfx(&mut self, depth: usize) -> Expr {
        match self.expr(depth) {
            Expr::Vararg => paren(Expr::Vararg),
            e => e,
        }
    }

    pub fn expr(&mut self, depth: usize) -> Expr {
        if depth == 0 {
            return self.leaf();
        }
        let d = depth - 1;
        let k = self.t.weighted(&[30, 10, 10, 12, 8, 5, 6, 14, 30, 10, if self.luau { 12 } else { 0 }, if self.luau { 12 } else { 0 }, if self.luau { 6 } else { 0 }, if self.luau { 4 } else { 0 }]);
        match k {
            0 => self.leaf(),
            1 => index(self.pfx(d), self.expr(d)),
            2 => field(self.pfx(d), &self.name()),
            3 => {
                let f = self.pfx(d);
                let args = self.exprs(d, 0, 3);
                call(f, args)
            }
            4 => {
                let o = self.pfx(d);
                let args = self.exprs(d, 0, 2);
                mcall(o, &self.name(), args)
            }
            5 => {
                let body = self.block(d.min(1), false);
                let mut f = fbody(&["p"], true, body.stmts);
                if self.luau && self.t.bool(100) {
                    f.params[0].ty = Some(self.ty(1));
                    f.ret_ty = Some(Box::new(self.ret_type(1)));
                }
                Expr::Function { attrs: vec![], func: Box::new(f) }
            }
            6 => paren(self.expr(d)),
            7 => {
                let op = [UnOp::Neg, UnOp::Not, UnOp::Len][self.t.choose(3)];
                un(op, self.expr(d))
            }
            8 => {
                let mut op = BinOp::ALL[self.t.choose(16)];
                if !self.luau && op == BinOp::IDiv {
                    op = BinOp::Div;
                }
                bin(op, self.expr(d), self.expr(d))
            }
            9 => {
                let cnt = self.t.choose(4);
                let mut items = Vec::new();
                for _ in 0..cnt {
                    items.push(match self.t.choose(3) {
                        0 => TableItem::Pos(self.expr(d)),
                        1 => TableItem::Named(self.name(), self.expr(d)),
                        _ => TableItem::Keyed(self.expr(d), self.expr(d)),
                    });
                }
                Expr::Table(items)
            }
            10 => {
                let cnt = 1 + self.t.choose(2);
                let clauses = (0..cnt).map(|_| (self.expr(d), self.expr(d))).collect();
                Expr::IfExpr { clauses, else_: bx(self.expr(d)) }
            }
            11 => cast(self.expr(d), self.ty(2)),
            12 => {
                let cnt = self.t.choose(4);
                let mut segs = Vec::new();
                for i in 0..cnt {
                    if i % 2 == 0 {
                        segs.push(InterpSeg::Str(STRS[self.t.choose(STRS.len())].to_vec()));
                    } else {
                        segs.push(InterpSeg::Expr(self.expr(d)));
                    }
                }
                // adjacent literal pieces would merge; an empty literal piece disappears
                segs.retain(|s| !matches!(s, InterpSeg::Str(b) if b.is_empty()));
                Expr::Interp(segs)
            }
            _ => {
                let f = match self.t.choose(3) {
                    0 => n(&self.name()),
                    1 => field(n(&self.name()), &self.name()),
                    _ => self.pfx(d),
                };
                let types = (0..1 + self.t.choose(2)).map(|_| TypeArg::Type(self.ty(1))).collect();
                let args = self.exprs(d, 0, 2);
                call(Expr::Instantiate { expr: bx(f), types }, args)
            }
        }
    }

    fn exprs(&mut self, depth: usize, lo: usize, hi: usize) -> Vec<Expr> {
        let cnt = lo + self.t.choose(hi - lo + 1);
        (0..cnt).map(|_| self.expr(depth)).collect()
    }

    fn type_name(&mut self, depth: usize) -> TypeName {
        let name = TYPE_NAMES[self.t.choose(TYPE_NAMES.len())].to_string();
        let params = if depth > 0 && self.t.bool(70) {
            let cnt = self.t.choose(3);
            Some(
                (0..cnt)
                    .map(|_| match self.t.choose(6) {
                        0 => TypeArg::Pack(TypePack { types: (0..self.t.choose(3)).map(|_| self.ty(depth - 1)).collect::<Vec<_>>(), tail: None }),
                        1 => TypeArg::Variadic(Box::new(self.ty(depth - 1))),
                        2 => TypeArg::GenericPack("P".into()),
                        _ => TypeArg::Type(self.ty(depth - 1)),
                    })
                    .collect(),
            )
        } else {
            None
        };
        TypeName { name, params }
    }

    pub fn ret_type(&mut self, depth: usize) -> ReturnType {
        match self.t.choose(5) {
            0 => ReturnType::Pack(TypePack {
                types: {
                    let c = self.t.choose(3);
                    // a one-element pack `(T)` reads back as a parenthesised type
                    let c = if c == 1 { 2 } else { c };
                    (0..c).map(|_| self.ty(depth)).collect()
                },
                tail: if self.t.bool(60) { Some(Box::new(VariadicAnnotationPack::Variadic(self.ty(depth)))) } else { None },
            }),
            1 => ReturnType::GenericPack("P".into()),
            2 => ReturnType::Variadic(self.ty(depth)),
            _ => ReturnType::Type(self.ty(depth)),
        }
    }

    pub fn ty(&mut self, depth: usize) -> Type {
        if depth == 0 {
            return match self.t.choose(6) {
                0 => Type::Nil,
                1 => Type::True,
                2 => Type::False,
                3 => Type::Str(STRS[self.t.choose(STRS.len())].to_vec()),
                _ => Type::Name(self.type_name(0)),
            };
        }
        let d = depth - 1;
        match self.t.weighted(&[20, 10, 6, 8, 12, 6, 14, 12, 12, 8]) {
            0 => self.ty(0),
            1 => Type::Name(self.type_name(depth)),
            2 => Type::Qualified { namespace: "ns".into(), name: self.type_name(d) },
            3 => Type::Array(Box::new(self.ty(d))),
            4 => {
                let cnt = self.t.choose(4);
                let mut items = Vec::new();
                let mut have_indexer = false;
                for i in 0..cnt {
                    let access = match self.t.choose(4) {
                        0 => Some(Access::Read),
                        1 => Some(Access::Write),
                        _ => None,
                    };
                    items.push(match self.t.choose(4) {
                        0 => TableTypeItem::StrProp { access, key: STRS[self.t.choose(STRS.len())].to_vec(), ty: self.ty(d) },
                        1 if !have_indexer => {
                            have_indexer = true;
                            TableTypeItem::Indexer { access, key: self.ty(d), value: self.ty(d) }
                        }
                        _ => TableTypeItem::Prop { access, name: format!("p{}", i), ty: self.ty(d) },
                    });
                }
                Type::Table(items)
            }
            5 => Type::Typeof(bx(self.expr(1))),
            6 => {
                let cnt = self.t.choose(3);
                let params = (0..cnt).map(|i| (if self.t.bool(100) { Some(format!("q{}", i)) } else { None }, self.ty(d))).collect();
                let variadic = match self.t.choose(4) {
                    0 => Some(Box::new(VariadicAnnotationPack::Variadic(self.ty(d)))),
                    1 => Some(Box::new(VariadicAnnotationPack::GenericPack("P".into()))),
                    _ => None,
                };
                let generics = if self.t.bool(50) { Some(Generics { types: vec!["G".into()], packs: if self.t.bool(100) { vec!["H".into()] } else { vec![] } }) } else { None };
                Type::Function(Box::new(FunctionType { generics, params, variadic, ret: Box::new(self.ret_type(d)) }))
            }
            7 => Type::Optional(Box::new(self.ty(d))),
            8 => {
                let leading = self.t.bool(50);
                let cnt = if leading { 1 } else { 2 } + self.t.choose(2);
                Type::Union { leading, types: (0..cnt).map(|_| self.ty(d)).collect() }
            }
            _ => {
                let leading = self.t.bool(50);
                let cnt = if leading { 1 } else { 2 } + self.t.choose(2);
                Type::Intersection { leading, types: (0..cnt).map(|_| self.ty(d)).collect() }
            }
        }
    }

    fn binding(&mut self) -> Binding {
        let mut b = Binding::new(self.name());
        if self.luau && self.t.bool(80) {
            b.ty = Some(self.ty(2));
        }
        b
    }

    fn target(&mut self, depth: usize) -> Expr {
        match self.t.choose(3) {
            0 => n(&self.name()),
            1 => field(self.pfx(depth), &self.name()),
            _ => index(self.pfx(depth), self.expr(depth)),
        }
    }

    fn call_expr(&mut self, depth: usize) -> Expr {
        let args = self.exprs(depth, 0, 3);
        if self.t.bool(90) {
            mcall(self.pfx(depth), &self.name(), args)
        } else {
            call(self.pfx(depth), args)
        }
    }

    pub fn block(&mut self, depth: usize, in_loop: bool) -> Block {
        let cnt = self.t.choose(5);
        let mut stmts: Vec<Stmt> = (0..cnt).map(|_| self.stmt(depth, in_loop)).collect();
        match self.t.choose(6) {
            0 => stmts.push(Stmt::Return(self.exprs(depth.min(2), 0, 2))),
            1 if in_loop => stmts.push(Stmt::Break),
            2 if in_loop && self.luau => stmts.push(Stmt::Continue),
            _ => {}
        }
        Block::new(stmts)
    }

    fn stmt(&mut self, depth: usize, in_loop: bool) -> Stmt {
        let e = depth.min(3);
        let d = depth.saturating_sub(1);
        let deep = depth > 0;
        let w = [
            30,
            20,
            if self.luau { 10 } else { 0 },
            25,
            if deep { 6 } else { 0 },
            if deep { 8 } else { 0 },
            if deep { 6 } else { 0 },
            if deep { 12 } else { 0 },
            if deep { 8 } else { 0 },
            if deep { 8 } else { 0 },
            if deep { 8 } else { 0 },
            if deep { 8 } else { 0 },
            if self.luau { 10 } else { 0 },
        ];
        match self.t.weighted(&w) {
            0 => {
                let cnt = 1 + self.t.choose(3);
                Stmt::Local { is_const: false, names: (0..cnt).map(|_| self.binding()).collect(), values: self.exprs(e, 0, 3) }
            }
            1 => {
                let cnt = 1 + self.t.choose(2);
                Stmt::Assign { targets: (0..cnt).map(|_| self.target(e.min(2))).collect(), values: self.exprs(e, 1, 3) }
            }
            2 => {
                let ops = [BinOp::Add, BinOp::Sub, BinOp::Mul, BinOp::Div, BinOp::IDiv, BinOp::Mod, BinOp::Pow, BinOp::Concat];
                Stmt::CompoundAssign { target: self.target(e.min(2)), op: ops[self.t.choose(ops.len())], value: self.expr(e) }
            }
            3 => Stmt::Call(self.call_expr(e.min(2))),
            4 => Stmt::Do(self.block(d, in_loop)),
            5 => Stmt::While { cond: self.expr(e), body: self.block(d, true) },
            6 => Stmt::Repeat { body: self.block(d, true), cond: self.expr(e) },
            7 => {
                let cnt = 1 + self.t.choose(3);
                Stmt::If {
                    clauses: (0..cnt).map(|_| (self.expr(e), self.block(d, in_loop))).collect(),
                    else_: if self.t.bool(100) { Some(self.block(d, in_loop)) } else { None },
                }
            }
            8 => Stmt::NumFor {
                var: self.binding(),
                start: self.expr(e),
                limit: self.expr(e),
                step: if self.t.bool(80) { Some(self.expr(e)) } else { None },
                body: self.block(d, true),
            },
            9 => {
                let cnt = 1 + self.t.choose(3);
                Stmt::GenFor { vars: (0..cnt).map(|_| self.binding()).collect(), exprs: self.exprs(e, 1, 3), body: self.block(d, true) }
            }
            10 => {
                let fields = (0..self.t.choose(3)).map(|_| self.name()).collect();
                let method = if self.t.bool(80) { Some(self.name()) } else { None };
                let body = self.block(d, false);
                Stmt::Function { attrs: vec![], name: FuncName { base: self.name(), fields, method }, func: fbody(&["p", "q"], true, body.stmts) }
            }
            11 => {
                let body = self.block(d, false);
                Stmt::LocalFunction { attrs: vec![], is_const: false, name: self.name(), func: fbody(&[], true, body.stmts) }
            }
            _ => Stmt::TypeDecl { export: self.t.bool(60), name: "Ty".into(), generics: None, ty: self.ty(3) },
        }
    }
}
