use super::*;
use crate::luasyn::ast::*;
use crate::luasyn::{parse, Mode};
use crate::tape::{tape_from_seed, Tape};

use super::tests_corpus::*;

fn check_plain(b: &Block, mode: Mode) {
    let text = print_plain(b);
    let out = match parse(&text, mode) {
        Ok(o) => o,
        Err(e) => panic!("plain output does not parse ({:?}): {}\n-----\n{}\n-----", mode, e, text),
    };
    let a = strip_neutral_parens(b);
    let p = unmark_lines(&strip_neutral_parens(&out.block));
    if a != p {
        panic!("plain round trip differs\n-----\n{}\n-----\n{}", text, first_diff(&a, &p));
    }
    check_markers(&text, &out.tokens);
}

fn first_diff(a: &Block, b: &Block) -> String {
    let x = format!("{:#?}", erase_spelling(a));
    let y = format!("{:#?}", erase_spelling(b));
    let xl: Vec<&str> = x.lines().collect();
    let yl: Vec<&str> = y.lines().collect();
    for i in 0..xl.len().min(yl.len()) {
        if xl[i] != yl[i] {
            let lo = i.saturating_sub(12);
            return format!("first difference at dump line {}:\nWANT\n{}\nGOT\n{}", i, xl[lo..(i + 8).min(xl.len())].join("\n"), yl[lo..(i + 8).min(yl.len())].join("\n"));
        }
    }
    format!("length differs {} {}", xl.len(), yl.len())
}

fn check_markers(text: &str, tokens: &[crate::luasyn::Token]) {
    for t in tokens {
        if t.kind == crate::luasyn::TokKind::Str && t.text.starts_with("\"@L") {
            if let Ok(n) = t.text[3..t.text.len() - 1].parse::<u32>() {
                assert_eq!(n, t.line, "marker line wrong in\n{}", text);
            }
        }
    }
}

fn check_layout(b: &Block, seed: u64, opts: &LayoutOpts, mode: Mode) -> LayoutStats {
    check_layout_len(b, seed, opts, mode, 400)
}

fn check_layout_len(b: &Block, seed: u64, opts: &LayoutOpts, mode: Mode, len: usize) -> LayoutStats {
    let bytes = tape_from_seed(seed, len);
    let mut tape = Tape::new(&bytes);
    let (text, stats) = print_layout_stats(b, &mut tape, opts);
    let out = match parse(&text, mode) {
        Ok(o) => o,
        Err(e) => panic!("layout output does not parse (seed {}, {:?}): {}\n-----\n{}\n-----", seed, mode, e, text),
    };
    let a = strip_neutral_parens(b);
    let p = unmark_lines(&strip_neutral_parens(&out.block));
    if a != p {
        panic!("layout round trip differs (seed {})\n-----\n{}\n-----\n{}\n{:?}", seed, text, first_diff(&a, &p), text);
    }
    check_markers(&text, &out.tokens);
    if mode == Mode::Lua51 {
        // no ambiguous call in Luau mode either
    } else {
        assert!(out.ambiguous_calls.is_empty(), "ambiguous call (seed {})\n{}", seed, text);
    }
    stats
}

#[test]
fn plain_corpus_luau() {
    for b in corpus_luau().iter().chain(corpus_51().iter()) {
        check_plain(b, Mode::Luau);
    }
}

#[test]
fn plain_corpus_51() {
    for b in corpus_51().iter() {
        check_plain(b, Mode::Lua51);
        check_plain(b, Mode::Luau);
    }
}

#[test]
fn empty_tape_is_plain() {
    for b in corpus_luau().iter().chain(corpus_51().iter()) {
        let mut tape = Tape::new(&[]);
        assert_eq!(print_layout(b, &mut tape, &LayoutOpts::all(true)), print_plain(b));
        let mut tape = Tape::new(&[]);
        assert_eq!(print_layout(b, &mut tape, &LayoutOpts::none()), print_plain(b));
    }
}

#[test]
fn show_samples() {
    let c = corpus_luau();
    for (i, b) in c.iter().enumerate().take(4) {
        let bytes = tape_from_seed(i as u64 + 7, 400);
        let mut tape = Tape::new(&bytes);
        let (text, stats) = print_layout_stats(b, &mut tape, &LayoutOpts::all(true));
        println!("==== {} {:?}\n{}\n---- plain\n{}", i, stats, text, print_plain(b));
    }
}

#[test]
fn operator_nestings() {
    let a = || Expr::name("a");
    let b = || Expr::name("b");
    let c = || Expr::name("c");
    let d = || Expr::name("d");
    let bin = |op, l, r| Expr::Binary(op, Box::new(l), Box::new(r));
    let un = |op, x| Expr::Unary(op, Box::new(x));
    let mut exprs = Vec::new();
    for &o1 in BinOp::ALL.iter() {
        for &o2 in BinOp::ALL.iter() {
            exprs.push(bin(o1, bin(o2, a(), b()), c()));
            exprs.push(bin(o1, a(), bin(o2, b(), c())));
            for &u in &[UnOp::Neg, UnOp::Not, UnOp::Len] {
                exprs.push(bin(o1, un(u, bin(o2, a(), b())), c()));
                exprs.push(bin(o1, a(), un(u, bin(o2, b(), c()))));
                exprs.push(un(u, bin(o1, un(u, a()), un(UnOp::Neg, b()))));
                exprs.push(bin(o1, un(u, a()), bin(o2, un(u, b()), c())));
            }
        }
    }
    // triples, a sample of shapes
    let ops = [BinOp::Or, BinOp::And, BinOp::Lt, BinOp::Concat, BinOp::Add, BinOp::Mul, BinOp::IDiv, BinOp::Pow];
    for &o1 in &ops {
        for &o2 in &ops {
            for &o3 in &ops {
                exprs.push(bin(o1, bin(o2, bin(o3, a(), b()), c()), d()));
                exprs.push(bin(o1, bin(o2, a(), bin(o3, b(), c())), d()));
                exprs.push(bin(o1, bin(o2, a(), b()), bin(o3, c(), d())));
                exprs.push(bin(o1, a(), bin(o2, bin(o3, b(), c()), d())));
                exprs.push(bin(o1, a(), bin(o2, b(), bin(o3, c(), d()))));
            }
        }
    }
    exprs.push(un(UnOp::Neg, un(UnOp::Neg, a())));
    exprs.push(un(UnOp::Neg, un(UnOp::Neg, un(UnOp::Neg, Expr::num(1.0)))));
    exprs.push(bin(BinOp::Sub, a(), un(UnOp::Neg, b())));
    exprs.push(bin(BinOp::Pow, Expr::num(2.0), un(UnOp::Neg, Expr::num(3.0))));
    exprs.push(bin(BinOp::Concat, Expr::num(1.0), Expr::num(2.0)));
    for chunk in exprs.chunks(50) {
        let blk = Block::new(chunk.iter().map(|e| Stmt::Local { is_const: false, names: vec![Binding::new("x")], values: vec![e.clone()] }).collect());
        check_plain(&blk, Mode::Luau);
        for seed in 0..6 {
            check_layout(&blk, seed, &LayoutOpts::all(true), Mode::Luau);
        }
        // `//` is Luau only
        let has_idiv = print_plain(&blk).contains("//");
        if !has_idiv {
            check_plain(&blk, Mode::Lua51);
            for seed in 0..6 {
                check_layout(&blk, seed, &LayoutOpts::all(false), Mode::Lua51);
            }
        }
    }
}

#[test]
fn layout_roundtrip_luau() {
    let c: Vec<Block> = corpus_luau().into_iter().chain(corpus_51()).collect();
    let mut total = LayoutStats::default();
    let mut kinds_max = 0;
    for seed in 0..2000u64 {
        let b = &c[(seed as usize) % c.len()];
        let s = check_layout(b, seed, &LayoutOpts::all(true), Mode::Luau);
        total.comments += s.comments;
        total.long_comments += s.long_comments;
        total.newlines_in_expr += s.newlines_in_expr;
        total.semicolons += s.semicolons;
        total.respelled += s.respelled;
        total.sugar_calls += s.sugar_calls;
        total.redundant_parens += s.redundant_parens;
        total.crlf |= s.crlf;
        kinds_max = kinds_max.max(s.trivia_kinds);
    }
    println!("totals {:?} max kinds {}", total, kinds_max);
    assert!(total.comments > 500 && total.long_comments > 100 && total.newlines_in_expr > 500);
    assert!(total.semicolons > 500 && total.respelled > 300 && total.sugar_calls > 20 && total.redundant_parens > 300);
    assert!(total.crlf && kinds_max >= 8);
}

#[test]
fn layout_roundtrip_51() {
    let c = corpus_51();
    for seed in 0..2000u64 {
        let b = &c[(seed as usize) % c.len()];
        check_layout(b, seed, &LayoutOpts::all(false), Mode::Lua51);
    }
}

#[test]
fn layout_single_options() {
    let c: Vec<Block> = corpus_51();
    for k in 0..9 {
        let mut o = LayoutOpts::none();
        match k {
            0 => o.comments = true,
            1 => o.crlf = true,
            2 => o.blank_lines = true,
            3 => o.semicolons = true,
            4 => o.redundant_parens = true,
            5 => o.respell_literals = true,
            6 => o.call_sugar = true,
            7 => o.multiline = true,
            _ => o.trailing_newline = false,
        }
        for seed in 0..300u64 {
            let b = &c[(seed as usize) % c.len()];
            let s = check_layout(b, seed + 10_000, &o, Mode::Lua51);
            if k != 0 {
                assert_eq!(s.comments, 0);
            }
            if k != 3 {
                assert_eq!(s.semicolons, 0);
            }
            if k != 4 {
                assert_eq!(s.redundant_parens, 0);
            }
            if k != 5 {
                assert_eq!(s.respelled, 0);
            }
            if k != 6 {
                assert_eq!(s.sugar_calls, 0);
            }
            if k != 1 {
                assert!(!s.crlf);
            }
        }
    }
}

#[test]
fn number_spellings() {
    let vals = [0.0, 1.0, 2.0, 10.0, 100.0, 255.0, 1000.0, 65536.0, 0.5, 0.1, 3.14159, 1e15, 1e16, 1e100, 1.5e300, 5e-324, 1e-7, 123456789.0, 4294967296.0, 9007199254740992.0, 0.25, 1234.5];
    for (i, v) in vals.iter().enumerate() {
        let p = lit::plain_number(*v);
        assert_eq!(lit::decode_number(&p).unwrap().to_bits(), v.to_bits(), "{}", p);
        for seed in 0..200u64 {
            for luau in [false, true] {
                let bytes = tape_from_seed(seed * 31 + i as u64, 16);
                let mut t = Tape::new(&bytes);
                let (s, _) = lit::respell_number(*v, &mut t, luau);
                let mode = if luau { Mode::Luau } else { Mode::Lua51 };
                let e = crate::luasyn::parse_expr(&s, mode).unwrap_or_else(|e| panic!("{} {:?}: {}", s, mode, e));
                assert_eq!(e, Expr::num(*v), "{} {:?}", s, mode);
            }
        }
    }
}

#[test]
fn string_spellings() {
    let vals: Vec<Vec<u8>> = vec![
        b"".to_vec(),
        b"hello".to_vec(),
        b"a\nb".to_vec(),
        b"\nlead".to_vec(),
        b"q\"uo'te\\".to_vec(),
        b"]] ]=] ]==]".to_vec(),
        b"x]".to_vec(),
        b"[[x".to_vec(),
        b"a\r\nb\rc".to_vec(),
        b"\x00\x01\x7f\xff\xfe".to_vec(),
        "h\u{e9}llo \u{2603} \u{1F600}".as_bytes().to_vec(),
        b"\xc3".to_vec(),
        b"tab\there  two  spaces ".to_vec(),
        b"1\x0023".to_vec(),
        b"\x07\x08\x0c\x0b".to_vec(),
        b"--[[ not a comment ]]".to_vec(),
        b"{`}".to_vec(),
    ];
    for (i, v) in vals.iter().enumerate() {
        for seed in 0..400u64 {
            for luau in [false, true] {
                let bytes = tape_from_seed(seed * 131 + i as u64, 200);
                let mut t = Tape::new(&bytes);
                let (s, _) = lit::respell_string(v, &mut t, luau);
                let mode = if luau { Mode::Luau } else { Mode::Lua51 };
                let e = crate::luasyn::parse_expr(&s, mode).unwrap_or_else(|e| panic!("{} {:?}: {}", s, mode, e));
                assert_eq!(e, Expr::str(v.clone()), "{:?} {:?}", s, mode);
            }
        }
    }
}

fn random_cases() -> u64 {
    std::env::var("LUAPRINT_N").ok().and_then(|v| v.parse().ok()).unwrap_or(1500)
}

fn random_block(seed: u64, luau: bool) -> Block {
    let bytes = tape_from_seed(seed ^ 0x5eed, 700);
    let mut t = Tape::new(&bytes);
    let mut g = super::tests_random::Gen { t: &mut t, luau };
    g.block(3, false)
}

#[test]
fn random_roundtrip_luau() {
    for seed in 0..random_cases() {
        let b = random_block(seed, true);
        check_plain(&b, Mode::Luau);
        check_layout_len(&b, seed * 3 + 1, &LayoutOpts::all(true), Mode::Luau, 3000);
        check_layout_len(&b, seed * 3 + 2, &LayoutOpts::all(true), Mode::Luau, 300);
    }
}

#[test]
fn random_roundtrip_51() {
    for seed in 0..random_cases() {
        let b = random_block(seed, false);
        check_plain(&b, Mode::Lua51);
        check_plain(&b, Mode::Luau);
        check_layout_len(&b, seed * 3 + 1, &LayoutOpts::all(false), Mode::Lua51, 3000);
        check_layout_len(&b, seed * 3 + 2, &LayoutOpts::all(false), Mode::Lua51, 300);
        check_layout_len(&b, seed * 3 + 2, &LayoutOpts::all(true), Mode::Luau, 3000);
    }
}

#[test]
fn plain_spellings_pinned() {
    let e = |x: &Expr| print_expr_plain(x);
    assert_eq!(e(&un(UnOp::Neg, un(UnOp::Neg, n("x")))), "- -x");
    assert_eq!(e(&bin(BinOp::Sub, n("a"), un(UnOp::Neg, n("b")))), "a - -b");
    assert_eq!(e(&un(UnOp::Neg, bin(BinOp::Pow, n("a"), n("b")))), "-a ^ b");
    assert_eq!(e(&bin(BinOp::Pow, un(UnOp::Neg, n("a")), n("b"))), "(-a) ^ b");
    assert_eq!(e(&bin(BinOp::Pow, num(2.0), un(UnOp::Neg, num(3.0)))), "2 ^ -3");
    assert_eq!(e(&un(UnOp::Neg, bin(BinOp::Add, n("a"), n("b")))), "-(a + b)");
    assert_eq!(e(&un(UnOp::Not, n("x"))), "not x");
    assert_eq!(e(&un(UnOp::Len, n("x"))), "#x");
    assert_eq!(e(&bin(BinOp::Concat, num(1.0), num(2.0))), "1 .. 2");
    assert_eq!(e(&mcall(s("x"), "rep", vec![num(2.0)])), "(\"x\"):rep(2)");
    assert_eq!(e(&field(Expr::Table(vec![]), "a")), "({}).a");
    assert_eq!(e(&call(func(&[], false, vec![]), vec![])), "(function() end)()");
    assert_eq!(e(&index(n("t"), Expr::Str { raw: "[[x]]".into(), value: b"x".to_vec() })), "t[ [[x]]]");
    assert_eq!(e(&call(Expr::Instantiate { expr: bx(n("f")), types: vec![TypeArg::Type(tname("T"))] }, vec![n("x")])), "f<<T>>(x)");
    assert_eq!(
        e(&call(Expr::Instantiate { expr: bx(n("f")), types: vec![TypeArg::Type(tgen("A", vec![TypeArg::Type(tname("B"))]))] }, vec![])),
        "f<<A<B> >>()"
    );
    assert_eq!(e(&bin(BinOp::Add, ifx(n("c"), n("a"), n("b")), num(1.0))), "(if c then a else b) + 1");
    assert_eq!(e(&bin(BinOp::Add, num(1.0), ifx(n("c"), n("a"), n("b")))), "1 + if c then a else b");
    assert_eq!(e(&cast(bin(BinOp::Add, n("a"), n("b")), tname("T"))), "(a + b) :: T");
    assert_eq!(e(&bin(BinOp::Lt, cast(n("a"), tname("T")), n("b"))), "(a :: T) < b");
    assert_eq!(e(&Expr::Interp(vec![InterpSeg::Expr(Expr::Table(vec![TableItem::Pos(num(1.0))]))])), "`{ {1}}`");
    assert_eq!(e(&Expr::str(vec![b'a', 0, 0xff, b'\n', b'"', 0xc3, 0xa9])), "\"a\\000\\255\\n\\\"\u{e9}\"");
    assert_eq!(e(&num(-0.0)), "-0");
    assert_eq!(e(&num(1e100)), "1e100");
    assert_eq!(e(&num(123456789012345.0)), "123456789012345");
    assert_eq!(e(&num(0.1)), "0.1");
    let t = |x: &Type| print_type_plain(x);
    assert_eq!(t(&opt(union(vec![tname("A"), tname("B")]))), "(A | B)?");
    assert_eq!(t(&opt(tfn(vec![(Some("x".into()), tname("T"))], ReturnType::Type(tname("R"))))), "((x: T) -> R)?");
    assert_eq!(t(&union(vec![tfn(vec![], unit_pack()), tname("A")])), "(() -> ()) | A");
    assert_eq!(t(&tfn(vec![], ReturnType::Type(tfn(vec![], unit_pack())))), "() -> () -> ()");
    assert_eq!(t(&tgen("A", vec![TypeArg::Type(tgen("B", vec![TypeArg::Type(tname("C"))]))])), "A<B<C>>");
    assert_eq!(t(&inter(vec![union(vec![tname("A"), tname("B")]), tname("C")])), "(A | B) & C");
    assert_eq!(t(&Type::Table(vec![TableTypeItem::Prop { access: Some(Access::Read), name: "x".into(), ty: tname("T") }])), "{ read x: T }");
    let b = blk(vec![local(&["x"], vec![n("y")]), Stmt::Call(call(paren(bin(BinOp::Or, n("f"), n("g"))), vec![n("x")]))]);
    assert_eq!(print_plain(&b), "local x = y;\n(f or g)(x)\n");
    assert_eq!(print_plain(&blk(vec![])), "");
    assert_eq!(print_plain(&blk(vec![Stmt::Call(call(n("print"), vec![marker()])), Stmt::Do(blk(vec![Stmt::Return(vec![marker()])]))])), "print(\"@L1\")\ndo\n  return \"@L3\"\nend\n");
}
