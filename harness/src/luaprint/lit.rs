//! Literal spellings: numbers and strings, canonical and tape-chosen alternatives.
//! Every alternative number spelling is verified (by decoding it here) to denote the
//! same double, bit for bit, before it is used.

use crate::tape::Tape;

// ------------------------------------------------------------------------------- numbers

/// canonical spelling of a number value
pub fn plain_number(v: f64) -> String {
    if v.is_nan() {
        return "(0/0)".to_string();
    }
    if v.is_infinite() {
        return if v > 0.0 { "(1/0)".to_string() } else { "(-1/0)".to_string() };
    }
    if v == 0.0 {
        return if v.is_sign_negative() { "-0".to_string() } else { "0".to_string() };
    }
    if v < 0.0 {
        return format!("(-{})", plain_number(-v));
    }
    if v.fract() == 0.0 && v < 1e15 {
        return format!("{}", v as u64);
    }
    let s = format!("{}", v);
    if s.len() > 21 {
        format!("{:e}", v)
    } else {
        s
    }
}

/// decode a spelling produced here (decimal / hex integer / binary integer, `_` allowed)
pub fn decode_number(s: &str) -> Option<f64> {
    let t: String = s.chars().filter(|c| *c != '_').collect();
    if let Some(h) = t.strip_prefix("0x").or_else(|| t.strip_prefix("0X")) {
        return u64::from_str_radix(h, 16).ok().filter(|n| *n <= (1u64 << 53)).map(|n| n as f64);
    }
    if let Some(b) = t.strip_prefix("0b").or_else(|| t.strip_prefix("0B")) {
        return u64::from_str_radix(b, 2).ok().filter(|n| *n <= (1u64 << 53)).map(|n| n as f64);
    }
    if t.is_empty() || !t.bytes().all(|c| c.is_ascii_digit() || matches!(c, b'.' | b'e' | b'E' | b'+' | b'-')) {
        return None;
    }
    if !t.bytes().any(|c| c.is_ascii_digit()) {
        return None;
    }
    t.parse::<f64>().ok()
}

fn thousands(n: u64) -> String {
    let d = n.to_string();
    let mut out = String::new();
    for (i, c) in d.chars().enumerate() {
        if i > 0 && (d.len() - i) % 3 == 0 {
            out.push('_');
        }
        out.push(c);
    }
    out
}

/// all alternative spellings (unverified) of a non-negative finite value
fn number_candidates(v: f64, luau: bool) -> Vec<String> {
    let mut c = Vec::new();
    let plain = plain_number(v);
    if v.fract() == 0.0 && v <= 9007199254740992.0 {
        let n = v as u64;
        c.push(format!("{}.0", n));
        c.push(format!("{}.", n));
        c.push(format!("{}e0", n));
        c.push(format!("{}E0", n));
        c.push(format!("{}e+0", n));
        c.push(format!("{}.0e0", n));
        c.push(format!("{}0e-1", n));
        c.push(format!("{}.00", n));
        if luau || n <= u32::MAX as u64 {
            c.push(format!("0x{:x}", n));
            c.push(format!("0X{:X}", n));
            c.push(format!("0x{:X}", n));
            c.push(format!("0x0{:x}", n));
        }
        if n > 0 && n % 10 == 0 {
            c.push(format!("{}e1", n / 10));
            c.push(format!("{}E+1", n / 10));
        }
        if n > 0 && n % 100 == 0 {
            c.push(format!("{}e2", n / 100));
            c.push(format!("{}E2", n / 100));
        }
        if luau {
            c.push(format!("0b{:b}", n));
            c.push(format!("0B{:b}", n));
            c.push(format!("0b_{:b}", n));
            c.push(format!("0x_{:x}", n));
            c.push(format!("{}_", n));
            if n >= 1000 {
                c.push(thousands(n));
            }
            if n >= 10 {
                let d = n.to_string();
                c.push(format!("{}_{}", &d[..1], &d[1..]));
                c.push(format!("{}__{}", &d[..d.len() - 1], &d[d.len() - 1..]));
            }
        }
    } else {
        if let Some(rest) = plain.strip_prefix("0.") {
            c.push(format!(".{}", rest));
        }
        let has_e = plain.contains('e') || plain.contains('E');
        if !has_e {
            if plain.contains('.') {
                c.push(format!("{}0", plain));
                c.push(format!("{}00", plain));
                if luau {
                    c.push(format!("{}_0", plain));
                }
            }
            c.push(format!("{}e0", plain));
            c.push(format!("{}E+0", plain));
            c.push(format!("{}e-0", plain));
        } else {
            c.push(plain.replace('e', "E"));
        }
        c.push(format!("{:e}", v));
        c.push(format!("{:E}", v));
        c.push(format!("0{}", plain));
    }
    c
}

/// alternative spelling chosen by the tape; `(text, respelled)`
pub fn respell_number(v: f64, tape: &mut Tape, luau: bool) -> (String, bool) {
    let plain = plain_number(v);
    if !v.is_finite() || v.is_sign_negative() {
        return (plain, false);
    }
    if !tape.bool(90) {
        return (plain, false);
    }
    let cands = number_candidates(v, luau);
    if cands.is_empty() {
        return (plain, false);
    }
    let pick = cands[tape.choose(cands.len())].clone();
    match decode_number(&pick) {
        Some(d) if d.to_bits() == v.to_bits() && pick != plain => (pick, true),
        _ => (plain, false),
    }
}

// ------------------------------------------------------------------------------- strings

fn push_dec3(out: &mut String, b: u8) {
    out.push('\\');
    out.push_str(&format!("{:03}", b));
}

/// iterate over the content as valid chars / stray bytes
pub enum Piece {
    Char(char),
    Byte(u8),
}

pub fn pieces(bytes: &[u8]) -> Vec<Piece> {
    let mut out = Vec::new();
    let mut i = 0;
    while i < bytes.len() {
        match std::str::from_utf8(&bytes[i..]) {
            Ok(s) => {
                out.extend(s.chars().map(Piece::Char));
                break;
            }
            Err(e) => {
                let upto = e.valid_up_to();
                let s = std::str::from_utf8(&bytes[i..i + upto]).unwrap();
                out.extend(s.chars().map(Piece::Char));
                let bad = e.error_len().unwrap_or(bytes.len() - i - upto);
                for k in 0..bad {
                    out.push(Piece::Byte(bytes[i + upto + k]));
                }
                i += upto + bad;
            }
        }
    }
    out
}

fn escape_canonical(bytes: &[u8], quote: char) -> String {
    let mut out = String::new();
    for p in pieces(bytes) {
        match p {
            Piece::Byte(b) => push_dec3(&mut out, b),
            Piece::Char(c) => match c {
                '\n' => out.push_str("\\n"),
                '\r' => out.push_str("\\r"),
                '\\' => out.push_str("\\\\"),
                c if c == quote => {
                    out.push('\\');
                    out.push(c);
                }
                c if (c as u32) < 0x20 || c as u32 == 0x7f => push_dec3(&mut out, c as u8),
                c => out.push(c),
            },
        }
    }
    out
}

/// canonical spelling: double quotes
pub fn plain_string(bytes: &[u8]) -> String {
    format!("\"{}\"", escape_canonical(bytes, '"'))
}

/// literal segment of an interpolated string
pub fn interp_segment(bytes: &[u8]) -> String {
    let mut out = String::new();
    for p in pieces(bytes) {
        match p {
            Piece::Byte(b) => push_dec3(&mut out, b),
            Piece::Char(c) => match c {
                '\n' => out.push_str("\\n"),
                '\r' => out.push_str("\\r"),
                '\\' => out.push_str("\\\\"),
                '`' => out.push_str("\\`"),
                '{' => out.push_str("\\{"),
                c if (c as u32) < 0x20 || c as u32 == 0x7f => push_dec3(&mut out, c as u8),
                c => out.push(c),
            },
        }
    }
    out
}

/// smallest long-bracket level >= `min` usable for `content`, or None if the content cannot
/// be put in a long bracket at any level <= 6
pub fn long_level(content: &str, min: usize) -> Option<usize> {
    for lvl in min..=6 {
        let eq = "=".repeat(lvl);
        let close = format!("]{}]", eq);
        let open = format!("[{}[", eq);
        let combined = format!("{}{}", content, close);
        if combined.find(&close) == Some(content.len()) && !content.contains(&open) {
            return Some(lvl);
        }
    }
    None
}

fn long_string_ok(bytes: &[u8]) -> Option<&str> {
    let s = std::str::from_utf8(bytes).ok()?;
    if s.chars().any(|c| c == '\r' || ((c as u32) < 0x20 && c != '\n' && c != '\t') || c as u32 == 0x7f) {
        return None;
    }
    Some(s)
}

fn escape_random(bytes: &[u8], quote: char, tape: &mut Tape, luau: bool) -> String {
    let mut out = String::new();
    let ps = pieces(bytes);
    // byte view for "next is a digit" checks
    for (idx, p) in ps.iter().enumerate() {
        let next_is_digit = matches!(ps.get(idx + 1), Some(Piece::Char(c)) if c.is_ascii_digit());
        let next_is_ws = matches!(ps.get(idx + 1), Some(Piece::Char(c)) if c.is_whitespace() || (*c as u32) < 0x20);
        match p {
            Piece::Byte(b) => {
                if luau && tape.bool(100) {
                    out.push_str(&format!("\\x{:02x}", b));
                } else {
                    push_dec3(&mut out, *b);
                }
            }
            Piece::Char(c) => {
                let c = *c;
                let code = c as u32;
                let kind = tape.weighted(&[150, 30, 20, 20, 16, 10]);
                let must_escape =
                    c == '\n' || c == '\r' || c == '\\' || c == quote || code < 0x20 || code == 0x7f;
                match kind {
                    1 if code < 0x80 => {
                        if !next_is_digit && tape.bool(100) {
                            out.push_str(&format!("\\{}", code));
                        } else {
                            push_dec3(&mut out, code as u8);
                        }
                    }
                    1 => {
                        let mut buf = [0u8; 4];
                        for b in c.encode_utf8(&mut buf).bytes() {
                            push_dec3(&mut out, b);
                        }
                    }
                    2 if luau && code < 0x80 => {
                        if tape.bool(128) {
                            out.push_str(&format!("\\x{:02X}", code));
                        } else {
                            out.push_str(&format!("\\x{:02x}", code));
                        }
                    }
                    2 if luau => {
                        let mut buf = [0u8; 4];
                        for b in c.encode_utf8(&mut buf).bytes() {
                            out.push_str(&format!("\\x{:02x}", b));
                        }
                    }
                    3 if luau => {
                        if tape.bool(128) {
                            out.push_str(&format!("\\u{{{:X}}}", code));
                        } else {
                            out.push_str(&format!("\\u{{{:04x}}}", code));
                        }
                    }
                    4 if matches!(c, '\x07' | '\x08' | '\x0c' | '\t' | '\x0b' | '\n' | '\'' | '"') => {
                        match c {
                            '\x07' => out.push_str("\\a"),
                            '\x08' => out.push_str("\\b"),
                            '\x0c' => out.push_str("\\f"),
                            '\t' => out.push_str("\\t"),
                            '\x0b' => out.push_str("\\v"),
                            '\n' => out.push_str("\\\n"),
                            '\'' => out.push_str("\\'"),
                            _ => out.push_str("\\\""),
                        }
                    }
                    _ => {
                        if must_escape {
                            match c {
                                '\n' => out.push_str("\\n"),
                                '\r' => out.push_str("\\r"),
                                '\\' => out.push_str("\\\\"),
                                c if c == quote => {
                                    out.push('\\');
                                    out.push(c);
                                }
                                _ => push_dec3(&mut out, code as u8),
                            }
                        } else {
                            out.push(c);
                        }
                    }
                }
                if kind == 5 && luau && !next_is_ws {
                    out.push_str("\\z");
                    match tape.choose(4) {
                        0 => out.push(' '),
                        1 => out.push_str("  \t"),
                        2 => out.push_str("\n  "),
                        _ => {}
                    }
                }
            }
        }
    }
    out
}

/// alternative spelling chosen by the tape; `(text, respelled)`
pub fn respell_string(bytes: &[u8], tape: &mut Tape, luau: bool) -> (String, bool) {
    match tape.weighted(&[150, 40, 30, 36]) {
        1 => (format!("'{}'", escape_canonical(bytes, '\'')), true),
        2 => {
            if let Some(s) = long_string_ok(bytes) {
                let min = tape.choose(3);
                if let Some(lvl) = long_level(s, min) {
                    let eq = "=".repeat(lvl);
                    let lead = if s.starts_with('\n') || tape.bool(64) { "\n" } else { "" };
                    return (format!("[{eq}[{lead}{s}]{eq}]"), true);
                }
            }
            (plain_string(bytes), false)
        }
        3 => {
            let quote = if tape.bool(128) { '\'' } else { '"' };
            let body = escape_random(bytes, quote, tape, luau);
            (format!("{quote}{body}{quote}"), true)
        }
        _ => (plain_string(bytes), false),
    }
}
