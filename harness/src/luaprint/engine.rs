//! Token / gap engine: every token is emitted with the *canonical* gap that precedes it;
//! the plain printer renders the canonical gap, the layout printer lets the tape choose
//! trivia for it.  Token fusion is prevented centrally in `gap`.

use super::{LayoutOpts, LayoutStats};
use crate::tape::Tape;

/// canonical gap before a token
#[derive(Clone, Copy, PartialEq, Eq, Debug)]
pub(crate) enum G {
    /// nothing (`f(x)`, `a.b`); spaces / newlines / comments are legal
    Tight,
    /// one space
    Sp,
    /// nothing, and a line break is forbidden (callee -> `(`)
    NoNl,
    /// statement boundary: line break + indentation
    Line,
    /// before the first token of the file
    First,
}

// kinds of trivia, for `LayoutStats::trivia_kinds`
pub(crate) const K_MULTISPACE: u32 = 0;
pub(crate) const K_TAB: u32 = 1;
pub(crate) const K_NL_EXPR: u32 = 2;
pub(crate) const K_BLANK: u32 = 3;
pub(crate) const K_LINE_COMMENT: u32 = 4;
pub(crate) const K_LONG_COMMENT0: u32 = 5;
pub(crate) const K_LONG_COMMENT_N: u32 = 6;
pub(crate) const K_NO_SPACE: u32 = 7;
pub(crate) const K_SEMI: u32 = 8;
pub(crate) const K_SAME_LINE: u32 = 9;
pub(crate) const K_CRLF: u32 = 10;
pub(crate) const K_EXTRA_SPACE: u32 = 11;
pub(crate) const K_TRAILING_COMMENT: u32 = 12;
pub(crate) const K_TABLE_SEMI: u32 = 13;
pub(crate) const K_TABLE_TRAILING: u32 = 14;
pub(crate) const K_EOF_NO_NL: u32 = 15;
pub(crate) const K_MULTILINE_COMMENT: u32 = 16;
pub(crate) const K_ODD_INDENT: u32 = 17;
pub(crate) const K_BROKEN_LIST: u32 = 18;
pub(crate) const K_EOF_COMMENT: u32 = 19;
pub(crate) const K_HEAD_COMMENT: u32 = 20;

pub(crate) struct Lay<'t, 'd> {
    pub tape: &'t mut Tape<'d>,
    pub opts: LayoutOpts,
    pub stats: LayoutStats,
    pub kinds: u32,
    /// 0 = LF, 1 = CRLF, 2 = mixed
    pub nl_mode: u8,
    pub unit: &'static str,
}

pub(crate) struct Pr<'t, 'd> {
    pub out: String,
    /// 1-based line of the next byte to be written
    pub line: usize,
    pub indent: usize,
    /// last byte of the last token (0 at start)
    pub last: u8,
    pub last_num: bool,
    /// just wrote the `{` opening an interpolation
    pub interp_open: bool,
    /// the next `>` may touch a preceding `>` (closing nested type arguments)
    pub allow_gtgt: bool,
    /// > 0: layout choices are suspended (inside interpolated strings)
    pub quiet: usize,
    /// > 0: no neutral parentheses (attribute arguments)
    pub no_wrap: usize,
    /// whitespace has been written by hand since the last token
    pub spaced: bool,
    pub lay: Option<Lay<'t, 'd>>,
}

const COMMENT_POOL: &[&str] = &[
    "",
    " note",
    " TODO: x",
    "!strict",
    " a ]] b",
    " -- nested",
    " \u{e9}t\u{e9} \u{2603}",
    " x = 1",
    "[ not long",
    " ]=] ]]",
    "-",
    " \"quoted'",
    " end",
    " [[ inner",
    "!nolint",
    " ]",
];

fn is_word(b: u8) -> bool {
    b.is_ascii_alphanumeric() || b == b'_' || b >= 0x80
}

impl<'t, 'd> Pr<'t, 'd> {
    pub fn new(lay: Option<Lay<'t, 'd>>) -> Self {
        Pr {
            out: String::new(),
            line: 1,
            indent: 0,
            last: 0,
            last_num: false,
            interp_open: false,
            allow_gtgt: false,
            quiet: 0,
            no_wrap: 0,
            spaced: false,
            lay,
        }
    }

    // ------------------------------------------------------------------ tape access

    pub fn active(&self) -> bool {
        self.lay.is_some() && self.quiet == 0
    }

    pub fn opt(&self, f: impl Fn(&LayoutOpts) -> bool) -> bool {
        self.quiet == 0 && self.lay.as_ref().map_or(false, |l| f(&l.opts))
    }

    pub fn luau(&self) -> bool {
        self.lay.as_ref().map_or(true, |l| l.opts.luau)
    }

    pub fn tb(&mut self, p: u32) -> bool {
        if self.quiet > 0 {
            return false;
        }
        self.lay.as_mut().map_or(false, |l| l.tape.bool(p))
    }

    pub fn tc(&mut self, n: usize) -> usize {
        if self.quiet > 0 {
            return 0;
        }
        self.lay.as_mut().map_or(0, |l| l.tape.choose(n))
    }

    pub fn tw(&mut self, w: &[u32]) -> usize {
        if self.quiet > 0 {
            return 0;
        }
        self.lay.as_mut().map_or(0, |l| l.tape.weighted(w))
    }

    pub fn kind(&mut self, k: u32) {
        if let Some(l) = self.lay.as_mut() {
            l.kinds |= 1 << k;
        }
    }

    pub fn stat(&mut self, f: impl Fn(&mut LayoutStats)) {
        if let Some(l) = self.lay.as_mut() {
            f(&mut l.stats);
        }
    }

    // ------------------------------------------------------------------ raw output

    pub fn put(&mut self, s: &str) {
        self.line += s.bytes().filter(|b| *b == b'\n').count();
        self.out.push_str(s);
    }

    /// line end according to the file's mode
    pub fn nl(&mut self) {
        let mode = self.lay.as_ref().map_or(0, |l| l.nl_mode);
        let crlf = match mode {
            0 => false,
            1 => true,
            _ => self.lay.as_mut().map_or(false, |l| l.tape.bool(128)),
        };
        if crlf {
            self.kind(K_CRLF);
            self.stat(|s| s.crlf = true);
            self.put("\r\n");
        } else {
            self.put("\n");
        }
    }

    pub fn put_indent(&mut self, extra: usize) {
        let unit = self.lay.as_ref().map_or("  ", |l| l.unit);
        let s = unit.repeat(self.indent + extra);
        self.put(&s);
    }

    fn needs_sep(&self, next: &str) -> bool {
        let p = self.last;
        let n0 = match next.bytes().next() {
            Some(b) => b,
            None => return false,
        };
        if p == 0 {
            return false;
        }
        if is_word(p) && is_word(n0) {
            return true;
        }
        if self.last_num && (n0 == b'.' || is_word(n0)) {
            return true;
        }
        if p == b'.' && (n0 == b'.' || n0.is_ascii_digit()) {
            return true;
        }
        if p == b'-' && (n0 == b'-' || n0 == b'>') {
            return true;
        }
        if p == b'[' && (n0 == b'[' || n0 == b'=') {
            return true;
        }
        if n0 == b'=' && matches!(p, b'<' | b'>' | b'=' | b'~' | b':' | b'/' | b'+' | b'-' | b'*' | b'%' | b'^' | b'.') {
            return true;
        }
        if matches!(p, b'<' | b':' | b'/') && n0 == p {
            return true;
        }
        if p == b'>' && n0 == b'>' && !(self.allow_gtgt && next.len() == 1) {
            return true;
        }
        if self.interp_open && n0 == b'{' {
            return true;
        }
        false
    }

    // ------------------------------------------------------------------ tokens

    pub fn tok(&mut self, g: G, s: &str) {
        self.gap(g, s);
        self.put(s);
        self.last = s.bytes().last().unwrap_or(0);
        self.last_num = false;
        self.interp_open = false;
        self.allow_gtgt = false;
        self.spaced = false;
    }

    /// forced line break inside a broken list
    pub fn brk(&mut self, extra: usize) {
        self.nl();
        self.put_indent(extra);
        self.spaced = true;
        self.kind(K_BROKEN_LIST);
        self.stat(|s| s.newlines_in_expr += 1);
    }

    pub fn num_tok(&mut self, g: G, s: &str) {
        self.tok(g, s);
        self.last_num = true;
    }

    /// gap + fusion guard before a token starting with `next`
    pub fn gap(&mut self, g: G, next: &str) {
        let start = self.out.len();
        if self.active() {
            self.lay_gap(g);
        } else {
            match g {
                G::Tight | G::NoNl | G::First => {}
                G::Sp => self.put(" "),
                G::Line => {
                    if self.last != 0 {
                        self.nl();
                    }
                    self.put_indent(0);
                }
            }
        }
        if self.out.len() == start && !self.spaced && self.needs_sep(next) {
            self.put(" ");
        }
    }

    // ------------------------------------------------------------------ comments

    fn ensure_space_before_comment(&mut self) {
        match self.out.bytes().last() {
            None | Some(b' ') | Some(b'\t') | Some(b'\n') => {}
            _ => self.put(" "),
        }
    }

    /// a line comment on a line of its own, in front of the statement that is about to be written
    /// (it becomes leading trivia of that statement's first token), the line of the statement
    /// started; false = nothing written (no layout, no comments, first token of the file)
    pub fn own_line_comment(&mut self) -> bool {
        if !self.active() || self.last == 0 {
            return false;
        }
        if !self.lay.as_ref().map(|l| l.opts.comments).unwrap_or(false) {
            return false;
        }
        self.nl();
        self.put_indent(0);
        self.line_comment();
        self.nl();
        self.put_indent(0);
        self.spaced = true;
        true
    }

    /// `-- text` ; the caller must emit a line end right after
    fn line_comment(&mut self) {
        let mut text = COMMENT_POOL[self.tc(COMMENT_POOL.len())];
        // `--[[` or `--[=` would open a long comment
        if text.starts_with("[[") || text.starts_with("[=") {
            text = " note";
        }
        self.ensure_space_before_comment();
        self.put("--");
        self.put(text);
        self.kind(K_LINE_COMMENT);
        self.stat(|s| s.comments += 1);
    }

    fn long_comment(&mut self, nl_ok: bool) {
        let pick = self.tc(COMMENT_POOL.len() + 2);
        let multi = pick >= COMMENT_POOL.len();
        let text: String = if multi {
            if nl_ok {
                if pick == COMMENT_POOL.len() { " line one\n line two ".to_string() } else { "\nframed\n".to_string() }
            } else {
                " flat ".to_string()
            }
        } else {
            COMMENT_POOL[pick].to_string()
        };
        let min = self.tc(3);
        let lvl = match super::lit::long_level(&text, min) {
            Some(l) => l,
            None => return,
        };
        let eq = "=".repeat(lvl);
        self.ensure_space_before_comment();
        let s = format!("--[{eq}[{text}]{eq}]");
        self.put(&s);
        if multi && nl_ok {
            self.kind(K_MULTILINE_COMMENT);
        }
        self.kind(if lvl == 0 { K_LONG_COMMENT0 } else { K_LONG_COMMENT_N });
        self.stat(|s| {
            s.comments += 1;
            s.long_comments += 1;
        });
    }

    // ------------------------------------------------------------------ layout gaps

    fn lay_gap(&mut self, g: G) {
        match g {
            G::Tight | G::Sp | G::NoNl => self.lay_inline(g),
            G::Line => self.lay_line(),
            G::First => self.lay_first(),
        }
    }

    fn lay_inline(&mut self, g: G) {
        let canon_space = g == G::Sp;
        if !self.tb(26) {
            if canon_space {
                self.put(" ");
            }
            return;
        }
        let nl_ok = g != G::NoNl;
        let (multiline, comments, blank) = {
            let o = &self.lay.as_ref().unwrap().opts;
            (o.multiline, o.comments, o.blank_lines)
        };
        let w = [
            60,                                              // flip
            30,                                              // several spaces
            20,                                              // tab
            if nl_ok && multiline { 40 } else { 0 },         // line break
            if comments { 30 } else { 0 },                   // long comment
            if comments && nl_ok { 25 } else { 0 },          // line comment
            if nl_ok && multiline && blank { 8 } else { 0 }, // blank line inside
        ];
        match self.tw(&w) {
            0 => {
                if canon_space {
                    self.kind(K_NO_SPACE);
                } else {
                    self.kind(K_EXTRA_SPACE);
                    self.put(" ");
                }
            }
            1 => {
                let n = 2 + self.tc(3);
                self.put(&" ".repeat(n));
                self.kind(K_MULTISPACE);
            }
            2 => {
                self.put("\t");
                self.kind(K_TAB);
            }
            3 => {
                self.nl();
                self.put_indent(1);
                self.kind(K_NL_EXPR);
                self.stat(|s| s.newlines_in_expr += 1);
            }
            4 => {
                if canon_space || self.tb(128) {
                    self.put(" ");
                }
                self.long_comment(nl_ok);
                if canon_space || self.tb(128) {
                    self.put(" ");
                }
            }
            5 => {
                self.line_comment();
                self.nl();
                self.put_indent(1);
                self.stat(|s| s.newlines_in_expr += 1);
            }
            _ => {
                self.nl();
                self.nl();
                self.put_indent(1);
                self.kind(K_NL_EXPR);
                self.kind(K_BLANK);
                self.stat(|s| s.newlines_in_expr += 2);
            }
        }
    }

    fn lay_line(&mut self) {
        if self.last == 0 {
            // first token of the file is handled by G::First
            return;
        }
        if !self.tb(56) {
            self.nl();
            self.put_indent(0);
            return;
        }
        let (multiline, comments, blank) = {
            let o = &self.lay.as_ref().unwrap().opts;
            (o.multiline, o.comments, o.blank_lines)
        };
        let w = [
            if blank { 50 } else { 0 },     // blank line(s)
            if comments { 60 } else { 0 },  // own-line comment(s)
            if comments { 30 } else { 0 },  // trailing comment on the previous line
            if multiline { 30 } else { 0 }, // same line
            12,                             // odd indentation
            if comments { 20 } else { 0 },  // long comment before the statement
            10,                             // trailing spaces
        ];
        if w.iter().sum::<u32>() == 0 {
            self.nl();
            self.put_indent(0);
            return;
        }
        match self.tw(&w) {
            0 => {
                let n = 1 + self.tc(2);
                for _ in 0..=n {
                    self.nl();
                }
                self.put_indent(0);
                self.kind(K_BLANK);
            }
            1 => {
                let n = 1 + self.tc(2);
                self.nl();
                for _ in 0..n {
                    self.put_indent(0);
                    if self.tb(80) {
                        self.long_comment(true);
                    } else {
                        self.line_comment();
                    }
                    self.nl();
                }
                self.put_indent(0);
            }
            2 => {
                self.put(" ");
                self.line_comment();
                self.kind(K_TRAILING_COMMENT);
                self.nl();
                self.put_indent(0);
            }
            3 => {
                self.put(" ");
                self.kind(K_SAME_LINE);
            }
            4 => {
                self.nl();
                let n = self.tc(7);
                self.put(&" ".repeat(n));
                if self.tb(40) {
                    self.put("\t");
                }
                self.kind(K_ODD_INDENT);
            }
            5 => {
                self.nl();
                self.put_indent(0);
                self.long_comment(true);
                self.put(" ");
            }
            _ => {
                self.put("  ");
                self.nl();
                self.put_indent(0);
            }
        }
    }

    fn lay_first(&mut self) {
        if !self.tb(60) {
            return;
        }
        let (comments, blank) = {
            let o = &self.lay.as_ref().unwrap().opts;
            (o.comments, o.blank_lines)
        };
        match self.tw(&[if comments { 60 } else { 0 }, if blank { 20 } else { 0 }, 10, if comments { 20 } else { 0 }]) {
            0 if comments => {
                let n = 1 + self.tc(3);
                for _ in 0..n {
                    self.line_comment();
                    self.nl();
                }
                self.kind(K_HEAD_COMMENT);
            }
            1 if blank => {
                self.nl();
                if self.tb(100) {
                    self.nl();
                }
                self.kind(K_BLANK);
            }
            3 if comments => {
                self.long_comment(true);
                if self.tb(128) {
                    self.nl();
                } else {
                    self.put(" ");
                }
                self.kind(K_HEAD_COMMENT);
            }
            _ => {
                self.put("  ");
                self.kind(K_ODD_INDENT);
            }
        }
    }

    /// end of file
    pub fn finish(&mut self) {
        if !self.active() {
            if self.last != 0 {
                self.put("\n");
            }
            return;
        }
        let empty = self.last == 0;
        let (comments, blank, trailing_nl) = {
            let o = &self.lay.as_ref().unwrap().opts;
            (o.comments, o.blank_lines, o.trailing_newline)
        };
        if !self.tb(70) {
            if !empty {
                self.nl();
            }
            return;
        }
        let w = [
            if comments { 40 } else { 0 },                 // comment line(s) + newline
            if comments && !trailing_nl { 40 } else { 0 }, // comment at EOF, no newline
            if !trailing_nl { 40 } else { 0 },             // no newline at all
            if blank { 30 } else { 0 },                    // extra blank lines
            if !trailing_nl { 10 } else { 0 },             // trailing spaces, no newline
            if comments { 20 } else { 0 },                 // trailing comment on the last line
        ];
        if w.iter().sum::<u32>() == 0 {
            if !empty {
                self.nl();
            }
            return;
        }
        match self.tw(&w) {
            0 => {
                if !empty {
                    self.nl();
                }
                let n = 1 + self.tc(2);
                for _ in 0..n {
                    if self.tb(80) {
                        self.long_comment(true);
                    } else {
                        self.line_comment();
                    }
                    self.nl();
                }
                self.kind(K_EOF_COMMENT);
            }
            1 => {
                if !empty {
                    self.nl();
                }
                if self.tb(100) {
                    self.long_comment(true);
                } else {
                    self.line_comment();
                }
                self.kind(K_EOF_COMMENT);
                self.kind(K_EOF_NO_NL);
            }
            2 => {
                self.kind(K_EOF_NO_NL);
            }
            3 => {
                if !empty {
                    self.nl();
                }
                self.nl();
                if self.tb(100) {
                    self.nl();
                }
                self.kind(K_BLANK);
            }
            4 => {
                self.put("  ");
                self.kind(K_EOF_NO_NL);
            }
            _ => {
                if !empty {
                    self.put(" ");
                }
                self.line_comment();
                self.nl();
                self.kind(K_TRAILING_COMMENT);
            }
        }
    }
}
