//! The standard library subset, the host (observation) functions and `require`.

use super::fmt;
use super::interp::*;
use super::value::*;
use super::{Dialect, Event, RequireAction};
use std::rc::Rc;

#[derive(Clone, Copy, Debug, PartialEq, Eq)]
pub(crate) enum Builtin {
    Type,
    Typeof,
    Tostring,
    Tonumber,
    Select,
    Pcall,
    Error,
    Assert,
    Rawget,
    Rawset,
    Rawequal,
    Rawlen,
    Next,
    Pairs,
    Ipairs,
    IpairsIter,
    Unpack,
    Setmetatable,
    Getmetatable,
    Require,
    Noop,
    TInsert,
    TRemove,
    TConcat,
    TPack,
    SFormat,
    SRep,
    SSub,
    SLen,
    SByte,
    SChar,
    SUpper,
    SLower,
    SReverse,
    MFloor,
    MCeil,
    MSqrt,
    MAbs,
    MMax,
    MMin,
    MFmod,
    MPow,
    MModf,
}

#[derive(Clone, Copy, Debug, PartialEq, Eq)]
pub(crate) enum HostKind {
    /// returns nothing (`emit`, `print`, `probe0`)
    Nothing,
    /// returns all arguments (`probe`, extra hosts)
    All,
    /// returns the first argument only
    First,
    /// returns the first argument and the number 7
    FirstAnd7,
    /// returns a fresh table `{10, 20, x = 1}`
    FreshTable,
    /// metamethod of the loud metatable
    Loud(usize),
}

const NIL: &Value = &Value::Nil;

fn arg(args: &[Value], i: usize) -> &Value {
    args.get(i).unwrap_or(NIL)
}

impl<'a, 'h> Interp<'a, 'h> {
    fn reg(&mut self, table: u32, name: &str, b: Builtin) -> Value {
        let f = self.new_func(FuncObj::Builtin(b));
        let _ = self.tables[table as usize].set(Value::str(name.as_bytes()), f.clone());
        f
    }

    fn reg_host(&mut self, name: &str, kind: HostKind) {
        let f = self.new_func(FuncObj::Host { name: Rc::from(name), kind });
        self.set_global(name.as_bytes(), f);
    }

    pub(crate) fn install_stdlib(&mut self, has_require: bool) {
        let g = self.new_table();
        self.globals = g;
        self.set_global(b"_G", Value::Table(g));
        use Builtin::*;
        for (n, b) in [
            ("type", Type),
            ("tostring", Tostring),
            ("tonumber", Tonumber),
            ("select", Select),
            ("pcall", Pcall),
            ("error", Error),
            ("assert", Assert),
            ("rawget", Rawget),
            ("rawset", Rawset),
            ("rawequal", Rawequal),
            ("rawlen", Rawlen),
            ("pairs", Pairs),
            ("ipairs", Ipairs),
            ("unpack", Unpack),
            ("setmetatable", Setmetatable),
            ("getmetatable", Getmetatable),
        ] {
            self.reg(g, n, b);
        }
        self.next_fn = self.reg(g, "next", Next);
        if self.dialect == Dialect::Luau {
            self.reg(g, "typeof", Typeof);
        }
        if has_require {
            self.reg(g, "require", Require);
        }

        let t = self.new_table();
        self.set_global(b"table", Value::Table(t));
        for (n, b) in [("insert", TInsert), ("remove", TRemove), ("concat", TConcat), ("unpack", Unpack), ("pack", TPack)] {
            self.reg(t, n, b);
        }

        let s = self.new_table();
        self.set_global(b"string", Value::Table(s));
        for (n, b) in [
            ("format", SFormat),
            ("rep", SRep),
            ("sub", SSub),
            ("len", SLen),
            ("byte", SByte),
            ("char", SChar),
            ("upper", SUpper),
            ("lower", SLower),
            ("reverse", SReverse),
        ] {
            self.reg(s, n, b);
        }
        let sm = self.new_table();
        let _ = self.tables[sm as usize].set(Value::str(b"__index"), Value::Table(s));
        self.string_meta = sm;

        let m = self.new_table();
        self.set_global(b"math", Value::Table(m));
        for (n, b) in [
            ("floor", MFloor),
            ("ceil", MCeil),
            ("sqrt", MSqrt),
            ("abs", MAbs),
            ("max", MMax),
            ("min", MMin),
            ("fmod", MFmod),
            ("pow", MPow),
            ("modf", MModf),
        ] {
            self.reg(m, n, b);
        }
        let _ = self.tables[m as usize].set(Value::str(b"huge"), Value::Num(f64::INFINITY));
        let _ = self.tables[m as usize].set(Value::str(b"pi"), Value::Num(std::f64::consts::PI));

        let d = self.new_table();
        self.set_global(b"debug", Value::Table(d));
        self.reg(d, "profilebegin", Noop);
        self.reg(d, "profileend", Noop);

        self.reg_host("emit", HostKind::Nothing);
        self.reg_host("print", HostKind::Nothing);
        self.reg_host("probe", HostKind::All);
        self.reg_host("probe0", HostKind::Nothing);
        self.reg_host("probe1", HostKind::First);
        self.reg_host("probe2", HostKind::FirstAnd7);
        self.reg_host("probet", HostKind::FreshTable);
        let extra: Vec<String> = self.cfg.extra_hosts.clone();
        for name in extra {
            self.reg_host(&name, HostKind::All);
        }
    }

    pub(crate) fn install_loud(&mut self, names: &[String]) {
        if names.is_empty() {
            return;
        }
        let mt = self.new_table();
        for i in 0..LOUD_COUNT {
            let name = format!("meta:{}", MM_NAMES[i]);
            let f = self.new_func(FuncObj::Host { name: Rc::from(name.as_str()), kind: HostKind::Loud(i) });
            let _ = self.tables[mt as usize].set(Value::Str(self.mm[i].clone()), f);
        }
        self.loud_meta = Some(mt);
        for n in names {
            let t = self.new_table();
            self.tables[t as usize].meta = Some(mt);
            self.set_global(n.as_bytes(), Value::Table(t));
        }
    }

    pub(crate) fn call_host(&mut self, name: &str, kind: HostKind, args: Vec<Value>) -> R<Vec<Value>> {
        if let HostKind::Loud(mm) = kind {
            self.trace.push(Event { name: name.to_string(), args: Vec::new() });
            return Ok(match mm {
                MM_EQ | MM_LT | MM_LE => vec![Value::Bool(true)],
                MM_TOSTRING => vec![Value::str(b"loud")],
                _ => {
                    let lm = self.loud_meta;
                    let me = args.iter().find(|a| match a {
                        Value::Table(t) => self.tables[*t as usize].meta == lm,
                        _ => false,
                    });
                    vec![me.cloned().unwrap_or(Value::Nil)]
                }
            });
        }
        self.emit_event(name, &args)?;
        Ok(match kind {
            HostKind::Nothing => Vec::new(),
            HostKind::All => args,
            HostKind::First => vec![args.into_iter().next().unwrap_or(Value::Nil)],
            HostKind::FirstAnd7 => vec![args.into_iter().next().unwrap_or(Value::Nil), Value::Num(7.0)],
            HostKind::FreshTable => {
                let t = self.new_table();
                let tb = &mut self.tables[t as usize];
                let _ = tb.set(Value::Num(1.0), Value::Num(10.0));
                let _ = tb.set(Value::Num(2.0), Value::Num(20.0));
                let _ = tb.set(Value::str(b"x"), Value::Num(1.0));
                vec![Value::Table(t)]
            }
            HostKind::Loud(_) => unreachable!(),
        })
    }

    // ------------------------------------------------------------------ argument helpers

    fn bad_arg<T>(&self, i: usize, fname: &str, expected: &str, got: &Value) -> R<T> {
        rt(format!("bad argument #{} to '{}' ({} expected, got {})", i + 1, fname, expected, got.type_name()))
    }

    fn check_num(&self, args: &[Value], i: usize, fname: &str) -> R<f64> {
        match self.to_num(arg(args, i)) {
            Some(n) => Ok(n),
            None => self.bad_arg(i, fname, "number", arg(args, i)),
        }
    }

    /// integer argument: the number truncated towards zero
    fn check_int(&self, args: &[Value], i: usize, fname: &str) -> R<i64> {
        Ok(self.check_num(args, i, fname)? as i64)
    }

    fn opt_int(&self, args: &[Value], i: usize, fname: &str, default: i64) -> R<i64> {
        if arg(args, i).is_nil() {
            Ok(default)
        } else {
            self.check_int(args, i, fname)
        }
    }

    fn check_str(&self, args: &[Value], i: usize, fname: &str) -> R<Bytes> {
        match arg(args, i) {
            Value::Str(s) => Ok(s.clone()),
            Value::Num(n) => Ok(Rc::from(fmt::fmt_number(*n, self.dialect).as_bytes())),
            other => self.bad_arg(i, fname, "string", other),
        }
    }

    fn check_table(&self, args: &[Value], i: usize, fname: &str) -> R<u32> {
        match arg(args, i) {
            Value::Table(t) => Ok(*t),
            other => self.bad_arg(i, fname, "table", other),
        }
    }

    fn check_any(&self, args: &[Value], i: usize, fname: &str) -> R<()> {
        if i >= args.len() {
            return rt(format!("bad argument #{} to '{}' (value expected)", i + 1, fname));
        }
        Ok(())
    }

    fn table_len(&self, t: u32) -> i64 {
        self.tables[t as usize].border() as i64
    }

    // ------------------------------------------------------------------ the functions

    pub(crate) fn call_builtin(&mut self, b: Builtin, args: Vec<Value>) -> R<Vec<Value>> {
        use Builtin::*;
        match b {
            Noop => Ok(Vec::new()),
            Typeof => {
                super::note_dialect_event(0);
                self.check_any(&args, 0, "typeof")?;
                Ok(vec![Value::str(args[0].type_name().as_bytes())])
            }
            Type => {
                self.check_any(&args, 0, "type")?;
                Ok(vec![Value::str(args[0].type_name().as_bytes())])
            }
            Tostring => {
                self.check_any(&args, 0, "tostring")?;
                Ok(vec![self.tostring_val(&args[0])?])
            }
            Tonumber => {
                self.check_any(&args, 0, "tonumber")?;
                if arg(&args, 1).is_nil() {
                    return Ok(vec![match &args[0] {
                        Value::Num(n) => Value::Num(*n),
                        Value::Str(s) => match fmt::str_to_number(s, self.dialect) {
                            Some(n) => Value::Num(n),
                            None => Value::Nil,
                        },
                        _ => Value::Nil,
                    }]);
                }
                let base = self.check_int(&args, 1, "tonumber")?;
                if !(2..=36).contains(&base) {
                    return rt("bad argument #2 to 'tonumber' (base out of range)");
                }
                if base == 10 {
                    if let Value::Num(n) = &args[0] {
                        return Ok(vec![Value::Num(*n)]);
                    }
                }
                let s = self.check_str(&args, 0, "tonumber")?;
                Ok(vec![match fmt::str_to_number_base(&s, base as u32) {
                    Some(n) => Value::Num(n),
                    None => Value::Nil,
                }])
            }
            Select => {
                if let Value::Str(s) = arg(&args, 0) {
                    if &s[..] == b"#" {
                        return Ok(vec![Value::Num((args.len() - 1) as f64)]);
                    }
                }
                let n = self.check_int(&args, 0, "select")?;
                let count = (args.len() - 1) as i64;
                let start = if n < 0 {
                    count.saturating_add(n)
                } else if n > count {
                    count
                } else {
                    n - 1
                };
                if start < 0 || n == 0 {
                    return rt("bad argument #1 to 'select' (index out of range)");
                }
                Ok(args.into_iter().skip(1 + start as usize).collect())
            }
            Pcall => {
                self.check_any(&args, 0, "pcall")?;
                let mut it = args.into_iter();
                let f = it.next().unwrap();
                let rest: Vec<Value> = it.collect();
                match self.call(&f, rest) {
                    Ok(mut vals) => {
                        vals.insert(0, Value::Bool(true));
                        Ok(vals)
                    }
                    Err(Abort::OutOfSteps) => Err(Abort::OutOfSteps),
                    Err(Abort::Err(e)) => {
                        let v = match e {
                            LuaErr::Runtime(_) => Value::str(b"<runtime error>"),
                            LuaErr::User(v) => v,
                            LuaErr::Stack => Value::str(b"stack overflow"),
                            LuaErr::Require(_) => Value::str(b"<require error>"),
                        };
                        Ok(vec![Value::Bool(false), v])
                    }
                }
            }
            Error => Err(Abort::Err(LuaErr::User(arg(&args, 0).clone()))),
            Assert => {
                if self.cfg.assert_passthrough {
                    return Ok(args);
                }
                self.check_any(&args, 0, "assert")?;
                if args[0].truthy() {
                    Ok(args)
                } else if args.len() > 1 {
                    Err(Abort::Err(LuaErr::User(args[1].clone())))
                } else {
                    Err(Abort::Err(LuaErr::User(Value::str(b"assertion failed!"))))
                }
            }
            Rawget => {
                let t = self.check_table(&args, 0, "rawget")?;
                self.charge_str(arg(&args, 1))?;
                Ok(vec![self.tables[t as usize].get(arg(&args, 1))])
            }
            Rawset => {
                let t = self.check_table(&args, 0, "rawset")?;
                self.charge_str(arg(&args, 1))?;
                self.raw_set(t, arg(&args, 1).clone(), arg(&args, 2).clone())?;
                Ok(vec![args[0].clone()])
            }
            Rawequal => Ok(vec![Value::Bool(raw_equal(arg(&args, 0), arg(&args, 1)))]),
            Rawlen => match arg(&args, 0) {
                Value::Table(t) => Ok(vec![Value::Num(self.tables[*t as usize].border())]),
                Value::Str(s) => Ok(vec![Value::Num(s.len() as f64)]),
                other => self.bad_arg(0, "rawlen", "table or string", other),
            },
            Next => {
                let t = self.check_table(&args, 0, "next")?;
                self.charge_str(arg(&args, 1))?;
                match self.tables[t as usize].next(arg(&args, 1)) {
                    Ok(Some((k, v))) => Ok(vec![k, v]),
                    Ok(None) => Ok(vec![Value::Nil]),
                    Err(()) => rt("invalid key to 'next'"),
                }
            }
            Pairs => {
                self.check_table(&args, 0, "pairs")?;
                Ok(vec![self.next_fn.clone(), args[0].clone(), Value::Nil])
            }
            Ipairs => {
                self.check_table(&args, 0, "ipairs")?;
                let f = self.new_func(FuncObj::Builtin(IpairsIter));
                Ok(vec![f, args[0].clone(), Value::Num(0.0)])
            }
            IpairsIter => {
                let t = self.check_table(&args, 0, "ipairs")?;
                let i = self.check_num(&args, 1, "ipairs")? + 1.0;
                let v = self.tables[t as usize].get_int(i);
                if v.is_nil() {
                    Ok(vec![Value::Nil])
                } else {
                    Ok(vec![Value::Num(i), v])
                }
            }
            Unpack => {
                let t = self.check_table(&args, 0, "unpack")?;
                let i = self.opt_int(&args, 1, "unpack", 1)?;
                let j = if arg(&args, 2).is_nil() { self.table_len(t) } else { self.check_int(&args, 2, "unpack")? };
                if i > j {
                    return Ok(Vec::new());
                }
                if j.saturating_sub(i) >= 8000 {
                    return rt("too many results to unpack");
                }
                self.charge(((j - i) / 8) as u64)?;
                let mut out = Vec::with_capacity((j - i + 1) as usize);
                for k in i..=j {
                    out.push(self.tables[t as usize].get_int(k as f64));
                }
                Ok(out)
            }
            Setmetatable => {
                let t = self.check_table(&args, 0, "setmetatable")?;
                let mt = match arg(&args, 1) {
                    Value::Nil if args.len() >= 2 => None,
                    Value::Table(m) => Some(*m),
                    _ => return rt("bad argument #2 to 'setmetatable' (nil or table expected)"),
                };
                if !self.metamethod(&args[0], MM_METATABLE).is_nil() {
                    return rt("cannot change a protected metatable");
                }
                self.tables[t as usize].meta = mt;
                Ok(vec![args[0].clone()])
            }
            Getmetatable => {
                self.check_any(&args, 0, "getmetatable")?;
                match self.metatable_of(&args[0]) {
                    None => Ok(vec![Value::Nil]),
                    Some(m) => {
                        let protected = self.tables[m as usize].get_str(&self.mm[MM_METATABLE]);
                        if protected.is_nil() {
                            Ok(vec![Value::Table(m)])
                        } else {
                            Ok(vec![protected])
                        }
                    }
                }
            }
            Require => self.do_require(&args),

            // ---------------------------------------------------------- table
            TInsert => {
                let t = self.check_table(&args, 0, "insert")?;
                let n = self.table_len(t);
                match args.len() {
                    2 => {
                        self.raw_set(t, Value::Num((n + 1) as f64), args[1].clone())?;
                    }
                    3 => {
                        let pos = self.check_int(&args, 1, "insert")?;
                        let e = n + 1;
                        if e.saturating_sub(pos) > 0 {
                            self.charge((e.saturating_sub(pos) / 8) as u64)?;
                        }
                        let mut i = e;
                        while i > pos {
                            let v = self.tables[t as usize].get_int((i - 1) as f64);
                            self.raw_set(t, Value::Num(i as f64), v)?;
                            i -= 1;
                        }
                        self.raw_set(t, Value::Num(pos as f64), args[2].clone())?;
                    }
                    _ => return rt("wrong number of arguments to 'insert'"),
                }
                Ok(Vec::new())
            }
            TRemove => {
                let t = self.check_table(&args, 0, "remove")?;
                let n = self.table_len(t);
                let pos = self.opt_int(&args, 1, "remove", n)?;
                if !(1 <= pos && pos <= n) {
                    return Ok(Vec::new());
                }
                self.charge(((n - pos) / 8) as u64)?;
                let removed = self.tables[t as usize].get_int(pos as f64);
                let mut i = pos;
                while i < n {
                    let v = self.tables[t as usize].get_int((i + 1) as f64);
                    self.raw_set(t, Value::Num(i as f64), v)?;
                    i += 1;
                }
                self.raw_set(t, Value::Num(n as f64), Value::Nil)?;
                Ok(vec![removed])
            }
            TConcat => {
                let t = self.check_table(&args, 0, "concat")?;
                let sep: Bytes = if arg(&args, 1).is_nil() { Rc::from(&b""[..]) } else { self.check_str(&args, 1, "concat")? };
                let i = self.opt_int(&args, 2, "concat", 1)?;
                let j = if arg(&args, 3).is_nil() { self.table_len(t) } else { self.check_int(&args, 3, "concat")? };
                let mut out: Vec<u8> = Vec::new();
                let mut k = i;
                if j > i {
                    self.charge((j.saturating_sub(i) / 8).min(1 << 40) as u64)?;
                }
                while k <= j {
                    match self.tables[t as usize].get_int(k as f64) {
                        Value::Str(s) => out.extend_from_slice(&s),
                        Value::Num(n) => out.extend_from_slice(fmt::fmt_number(n, self.dialect).as_bytes()),
                        _ => return rt("invalid value in table for 'concat'"),
                    }
                    if k != j {
                        out.extend_from_slice(&sep);
                    } else {
                        break;
                    }
                    if out.len() > MAX_STRING {
                        return Err(Abort::OutOfSteps);
                    }
                    k += 1;
                }
                Ok(vec![self.new_string(out)?])
            }
            TPack => {
                let t = self.new_table();
                let n = args.len();
                for (i, v) in args.into_iter().enumerate() {
                    let _ = self.tables[t as usize].set(Value::Num((i + 1) as f64), v);
                }
                let _ = self.tables[t as usize].set(Value::str(b"n"), Value::Num(n as f64));
                Ok(vec![Value::Table(t)])
            }

            // ---------------------------------------------------------- string
            SFormat => self.string_format(&args),
            SRep => {
                let s = self.check_str(&args, 0, "rep")?;
                let n = self.check_int(&args, 1, "rep")?;
                if n <= 0 || s.is_empty() {
                    return Ok(vec![Value::str(b"")]);
                }
                if (s.len() as u128) * (n as u128) > MAX_STRING as u128 {
                    return Err(Abort::OutOfSteps);
                }
                let out = s.repeat(n as usize);
                Ok(vec![self.new_string(out)?])
            }
            SSub => {
                let s = self.check_str(&args, 0, "sub")?;
                let len = s.len() as i64;
                let i = self.opt_int(&args, 1, "sub", 1)?;
                let j = self.opt_int(&args, 2, "sub", -1)?;
                let (i, j) = str_range(i, j, len);
                if i > j {
                    return Ok(vec![Value::str(b"")]);
                }
                Ok(vec![self.new_string(s[(i - 1) as usize..j as usize].to_vec())?])
            }
            SLen => {
                let s = self.check_str(&args, 0, "len")?;
                Ok(vec![Value::Num(s.len() as f64)])
            }
            SByte => {
                let s = self.check_str(&args, 0, "byte")?;
                let len = s.len() as i64;
                let i = self.opt_int(&args, 1, "byte", 1)?;
                let j = self.opt_int(&args, 2, "byte", i)?;
                let (i, j) = str_range(i, j, len);
                if i > j {
                    return Ok(Vec::new());
                }
                self.charge(((j - i) / 8) as u64)?;
                Ok(s[(i - 1) as usize..j as usize].iter().map(|b| Value::Num(*b as f64)).collect())
            }
            SChar => {
                let mut out = Vec::with_capacity(args.len());
                for i in 0..args.len() {
                    let c = self.check_int(&args, i, "char")?;
                    if !(0..=255).contains(&c) {
                        return rt("bad argument to 'char' (invalid value)");
                    }
                    out.push(c as u8);
                }
                Ok(vec![self.new_string(out)?])
            }
            SUpper => {
                let s = self.check_str(&args, 0, "upper")?;
                Ok(vec![self.new_string(s.to_ascii_uppercase())?])
            }
            SLower => {
                let s = self.check_str(&args, 0, "lower")?;
                Ok(vec![self.new_string(s.to_ascii_lowercase())?])
            }
            SReverse => {
                let s = self.check_str(&args, 0, "reverse")?;
                let mut v = s.to_vec();
                v.reverse();
                Ok(vec![self.new_string(v)?])
            }

            // ---------------------------------------------------------- math
            MFloor => Ok(vec![Value::Num(self.check_num(&args, 0, "floor")?.floor())]),
            MCeil => Ok(vec![Value::Num(self.check_num(&args, 0, "ceil")?.ceil())]),
            MSqrt => Ok(vec![Value::Num(self.check_num(&args, 0, "sqrt")?.sqrt())]),
            MAbs => Ok(vec![Value::Num(self.check_num(&args, 0, "abs")?.abs())]),
            MMax | MMin => {
                let name = if b == MMax { "max" } else { "min" };
                let mut best = self.check_num(&args, 0, name)?;
                for i in 1..args.len() {
                    let v = self.check_num(&args, i, name)?;
                    if (b == MMax && v > best) || (b == MMin && v < best) {
                        best = v;
                    }
                }
                Ok(vec![Value::Num(best)])
            }
            MFmod => {
                let x = self.check_num(&args, 0, "fmod")?;
                let y = self.check_num(&args, 1, "fmod")?;
                Ok(vec![Value::Num(x % y)])
            }
            MPow => {
                let x = self.check_num(&args, 0, "pow")?;
                let y = self.check_num(&args, 1, "pow")?;
                Ok(vec![Value::Num(x.powf(y))])
            }
            MModf => {
                let x = self.check_num(&args, 0, "modf")?;
                if x.is_infinite() {
                    return Ok(vec![Value::Num(x), Value::Num(if x > 0.0 { 0.0 } else { -0.0 })]);
                }
                let ip = x.trunc();
                Ok(vec![Value::Num(ip), Value::Num(x - ip)])
            }
        }
    }

    fn string_format(&mut self, args: &[Value]) -> R<Vec<Value>> {
        let f = self.check_str(args, 0, "format")?;
        let mut out: Vec<u8> = Vec::new();
        let mut i = 0;
        let mut argi = 1;
        while i < f.len() {
            let c = f[i];
            i += 1;
            if c != b'%' {
                out.push(c);
                continue;
            }
            if i < f.len() && f[i] == b'%' {
                out.push(b'%');
                i += 1;
                continue;
            }
            if i < f.len() && f[i] == b'*' && self.dialect == Dialect::Luau {
                i += 1;
                super::note_dialect_event(1);
                if argi >= args.len() {
                    return rt("missing argument to 'format'");
                }
                let b = self.tostring_bytes(&args[argi])?;
                argi += 1;
                out.extend_from_slice(&b);
                continue;
            }
            let (sp, conv, used) = match fmt::parse_spec(&f[i..]) {
                Ok(x) => x,
                Err(m) => return rt(m),
            };
            i += used;
            if argi >= args.len() {
                return rt(format!("bad argument #{} to 'format' (no value)", argi + 1));
            }
            match conv {
                b'c' => {
                    let v = self.check_int(args, argi, "format")?;
                    out.extend_from_slice(&fmt::printf_str(&[v as u8], &sp));
                }
                b'd' | b'i' => {
                    let v = self.check_num(args, argi, "format")?;
                    out.extend_from_slice(&fmt::printf_int(v as i64, &sp));
                }
                b'o' | b'u' | b'x' | b'X' => {
                    let v = self.check_num(args, argi, "format")?;
                    out.extend_from_slice(&fmt::printf_uint(v as i64 as u64, conv, &sp));
                }
                b'e' | b'E' | b'f' | b'g' | b'G' => {
                    let v = self.check_num(args, argi, "format")?;
                    out.extend_from_slice(&fmt::printf_float(v, conv, &sp));
                }
                b's' => {
                    if !matches!(args[argi], Value::Str(_) | Value::Num(_)) {
                        // Lua 5.1 (luaL_checklstring) accepts strings and numbers only; Luau converts
                        // anything like tostring
                        super::note_dialect_event(0);
                        if self.dialect == Dialect::Lua51 {
                            return rt(format!("bad argument #{} to 'format' (string expected, got {})", argi + 2, args[argi].type_name()));
                        }
                    }
                    let b = self.tostring_bytes(&args[argi])?;
                    out.extend_from_slice(&fmt::printf_str(&b, &sp));
                }
                other => {
                    return rt(format!("invalid option '%{}' to 'format'", other as char));
                }
            }
            argi += 1;
            if out.len() > MAX_STRING {
                return Err(Abort::OutOfSteps);
            }
        }
        Ok(vec![self.new_string(out)?])
    }

    fn do_require(&mut self, args: &[Value]) -> R<Vec<Value>> {
        let a = arg(args, 0).clone();
        let Value::Str(name) = &a else {
            // not resolvable by name: an external module
            self.emit_event("require", &[a.clone()])?;
            let (s, _) = super::snap::snapshot(self, &a);
            return Ok(vec![Value::str(format!("<ext:{}>", s).as_bytes())]);
        };
        let from = self.chunk_names[self.cur_chunk as usize].clone();
        let action = match self.host.as_mut() {
            Some(h) => h.require(name, &from),
            None => return rt("require is not available"),
        };
        match action {
            RequireAction::Value(pv) => Ok(vec![self.preset_to_value(&pv)]),
            RequireAction::External => {
                self.emit_event("require", &[a.clone()])?;
                let mut s = b"<ext:".to_vec();
                s.extend_from_slice(name);
                s.push(b'>');
                Ok(vec![Value::str(&s)])
            }
            RequireAction::Fail(msg) => Err(Abort::Err(LuaErr::Require(msg))),
            RequireAction::Module { cache_key, chunk_name, block } => {
                match self.module_cache.get(&cache_key) {
                    Some(ModState::Loaded(v)) => return Ok(vec![v.clone()]),
                    Some(ModState::Loading) => {
                        return Err(Abort::Err(LuaErr::Require(format!("cyclic require of {}", cache_key))));
                    }
                    None => {}
                }
                self.module_cache.insert(cache_key.clone(), ModState::Loading);
                let r = self.run_module(block, &chunk_name);
                match r {
                    Ok(vals) => {
                        if vals.len() != 1 {
                            self.module_cache.remove(&cache_key);
                            return Err(Abort::Err(LuaErr::Require(format!(
                                "module {} must return exactly one value",
                                cache_key
                            ))));
                        }
                        let v = vals.into_iter().next().unwrap();
                        self.module_cache.insert(cache_key, ModState::Loaded(v.clone()));
                        Ok(vec![v])
                    }
                    Err(e) => {
                        self.module_cache.remove(&cache_key);
                        Err(e)
                    }
                }
            }
        }
    }
}

/// Lua's translation of (i, j) string positions into a 1-based inclusive range clipped to the
/// string (an empty range has i > j)
fn str_range(i: i64, j: i64, len: i64) -> (i64, i64) {
    let mut i = if i < 0 { len.saturating_add(i).saturating_add(1).max(0) } else { i };
    let mut j = if j < 0 { len.saturating_add(j).saturating_add(1) } else { j };
    if i < 1 {
        i = 1;
    }
    if j > len {
        j = len;
    }
    (i, j)
}
