//! Values and the insertion-ordered table.

use std::collections::HashMap;
use std::hash::{BuildHasherDefault, Hash, Hasher};
use std::rc::Rc;

pub type Bytes = Rc<[u8]>;

/// Tables and functions live in arenas owned by the interpreter (dropped wholesale at the end of
/// a run, so reference cycles cost nothing); a value only carries the arena index.
#[derive(Clone, Debug)]
pub enum Value {
    Nil,
    Bool(bool),
    Num(f64),
    Str(Bytes),
    Table(u32),
    Func(u32),
}

impl Value {
    pub fn str(s: &[u8]) -> Value {
        Value::Str(Rc::from(s))
    }
    pub fn truthy(&self) -> bool {
        !matches!(self, Value::Nil | Value::Bool(false))
    }
    pub fn is_nil(&self) -> bool {
        matches!(self, Value::Nil)
    }
    pub fn type_name(&self) -> &'static str {
        match self {
            Value::Nil => "nil",
            Value::Bool(_) => "boolean",
            Value::Num(_) => "number",
            Value::Str(_) => "string",
            Value::Table(_) => "table",
            Value::Func(_) => "function",
        }
    }
}

pub fn raw_equal(a: &Value, b: &Value) -> bool {
    match (a, b) {
        (Value::Nil, Value::Nil) => true,
        (Value::Bool(x), Value::Bool(y)) => x == y,
        (Value::Num(x), Value::Num(y)) => x == y,
        (Value::Str(x), Value::Str(y)) => Rc::ptr_eq(x, y) || x[..] == y[..],
        (Value::Table(x), Value::Table(y)) => x == y,
        (Value::Func(x), Value::Func(y)) => x == y,
        _ => false,
    }
}

#[derive(Clone, Debug, PartialEq, Eq, Hash)]
pub enum Key {
    Bool(bool),
    /// bit pattern of the number with -0 normalised to +0 (all numbers are floats, so `t[1]` and
    /// `t[1.0]` are trivially the same key)
    Num(u64),
    Str(Bytes),
    Table(u32),
    Func(u32),
}

pub enum KeyError {
    Nil,
    NaN,
}

pub fn key_of(v: &Value) -> Result<Key, KeyError> {
    Ok(match v {
        Value::Nil => return Err(KeyError::Nil),
        Value::Bool(b) => Key::Bool(*b),
        Value::Num(n) => {
            if n.is_nan() {
                return Err(KeyError::NaN);
            }
            Key::Num(if *n == 0.0 { 0f64.to_bits() } else { n.to_bits() })
        }
        Value::Str(s) => Key::Str(s.clone()),
        Value::Table(t) => Key::Table(*t),
        Value::Func(f) => Key::Func(*f),
    })
}

#[derive(Default)]
pub struct FxHasher {
    h: u64,
}

const FX_K: u64 = 0x517c_c1b7_2722_0a95;

impl FxHasher {
    #[inline]
    fn add(&mut self, x: u64) {
        self.h = (self.h.rotate_left(5) ^ x).wrapping_mul(FX_K);
    }
}

impl Hasher for FxHasher {
    fn write(&mut self, bytes: &[u8]) {
        let mut chunks = bytes.chunks_exact(8);
        for c in &mut chunks {
            self.add(u64::from_le_bytes([c[0], c[1], c[2], c[3], c[4], c[5], c[6], c[7]]));
        }
        let rem = chunks.remainder();
        if !rem.is_empty() {
            let mut buf = [0u8; 8];
            buf[..rem.len()].copy_from_slice(rem);
            self.add(u64::from_le_bytes(buf) ^ ((rem.len() as u64) << 56));
        }
    }
    fn write_u8(&mut self, i: u8) {
        self.add(i as u64);
    }
    fn write_u32(&mut self, i: u32) {
        self.add(i as u64);
    }
    fn write_u64(&mut self, i: u64) {
        self.add(i);
    }
    fn write_usize(&mut self, i: usize) {
        self.add(i as u64);
    }
    fn finish(&self) -> u64 {
        // final avalanche so that the low bits depend on everything
        let mut x = self.h;
        x ^= x >> 32;
        x = x.wrapping_mul(0x9E37_79B9_7F4A_7C15);
        x ^= x >> 29;
        x
    }
}

pub type FxMap<K, V> = HashMap<K, V, BuildHasherDefault<FxHasher>>;

const SMALL: usize = 8;

/// Insertion-ordered table.  A removed field keeps its slot (with a nil value) so that a
/// traversal in progress can continue from it; dead slots are reclaimed only when a *new* key is
/// inserted (the moment real Lua may rehash, where continuing a traversal is undefined anyway).
#[derive(Default)]
pub struct TableObj {
    slots: Vec<(Value, Value)>,
    index: Option<FxMap<Key, u32>>,
    dead: usize,
    hint: std::cell::Cell<f64>,
    /// every slot before this index is dead (keeps `next(t)` on a drained queue cheap)
    first_live: std::cell::Cell<usize>,
    pub meta: Option<u32>,
}

impl TableObj {
    pub fn new() -> TableObj {
        TableObj::default()
    }

    fn find(&self, k: &Value) -> Option<usize> {
        match &self.index {
            None => self.slots.iter().position(|(sk, _)| raw_equal(sk, k)),
            Some(ix) => match key_of(k) {
                Ok(key) => ix.get(&key).map(|i| *i as usize),
                Err(_) => None,
            },
        }
    }

    pub fn get(&self, k: &Value) -> Value {
        match k {
            Value::Nil => Value::Nil,
            Value::Num(n) if n.is_nan() => Value::Nil,
            _ => match self.find(k) {
                Some(i) => self.slots[i].1.clone(),
                None => Value::Nil,
            },
        }
    }

    pub fn get_str(&self, k: &Bytes) -> Value {
        match &self.index {
            None => {
                for (sk, sv) in &self.slots {
                    if let Value::Str(s) = sk {
                        if Rc::ptr_eq(s, k) || s[..] == k[..] {
                            return sv.clone();
                        }
                    }
                }
                Value::Nil
            }
            Some(ix) => match ix.get(&Key::Str(k.clone())) {
                Some(i) => self.slots[*i as usize].1.clone(),
                None => Value::Nil,
            },
        }
    }

    pub fn get_int(&self, i: f64) -> Value {
        self.get(&Value::Num(i))
    }

    fn compact(&mut self) {
        self.slots.retain(|(_, v)| !v.is_nil());
        self.dead = 0;
        self.first_live.set(0);
        self.rebuild_index();
    }

    fn rebuild_index(&mut self) {
        if self.slots.len() > SMALL {
            let mut ix: FxMap<Key, u32> = FxMap::default();
            ix.reserve(self.slots.len() * 2);
            for (i, (k, _)) in self.slots.iter().enumerate() {
                if let Ok(key) = key_of(k) {
                    ix.insert(key, i as u32);
                }
            }
            self.index = Some(ix);
        } else {
            self.index = None;
        }
    }

    /// raw store; assigning nil to an absent key is a no-op
    pub fn set(&mut self, k: Value, v: Value) -> Result<(), KeyError> {
        let key = key_of(&k)?;
        if let Some(i) = self.find(&k) {
            let was_nil = self.slots[i].1.is_nil();
            let now_nil = v.is_nil();
            self.slots[i].1 = v;
            if was_nil && !now_nil {
                self.dead -= 1;
                if i < self.first_live.get() {
                    self.first_live.set(i);
                }
            } else if !was_nil && now_nil {
                self.dead += 1;
            }
            return Ok(());
        }
        if v.is_nil() {
            return Ok(());
        }
        if self.dead > 16 && self.dead * 2 > self.slots.len() {
            self.compact();
        }
        // normalise a -0 key to 0 so that iteration reports what real Lua reports
        let k = match k {
            Value::Num(n) if n == 0.0 => Value::Num(0.0),
            other => other,
        };
        self.slots.push((k, v));
        let pos = (self.slots.len() - 1) as u32;
        match &mut self.index {
            Some(ix) => {
                ix.insert(key, pos);
            }
            None => {
                if self.slots.len() > SMALL {
                    self.rebuild_index();
                }
            }
        }
        Ok(())
    }

    /// `next`: `Ok(None)` at the end, `Err(())` if the key is not in the table
    pub fn next(&self, k: &Value) -> Result<Option<(Value, Value)>, ()> {
        let from_start = k.is_nil();
        let mut i = match k {
            Value::Nil => self.first_live.get(),
            _ => match self.find(k) {
                Some(i) => i + 1,
                None => return Err(()),
            },
        };
        while i < self.slots.len() {
            if !self.slots[i].1.is_nil() {
                if from_start {
                    self.first_live.set(i);
                }
                return Ok(Some((self.slots[i].0.clone(), self.slots[i].1.clone())));
            }
            i += 1;
        }
        if from_start {
            self.first_live.set(self.slots.len());
        }
        Ok(None)
    }

    /// a border: n with t[n] ~= nil (or n == 0) and t[n+1] == nil.  On a sequence without holes
    /// the border is unique; the search starts from the previous answer (appending in a loop
    /// then costs two lookups instead of a logarithmic search).
    pub fn border(&self) -> f64 {
        let hint = self.hint.get();
        let mut i = 0f64; // t[i] is non-nil (or i == 0)
        let mut j; // t[j] is nil
        if hint >= 1.0 {
            if self.get_int(hint).is_nil() {
                j = hint;
                return self.bisect(i, j);
            }
            i = hint;
        }
        let mut step = 1f64;
        loop {
            j = i + step;
            if self.get_int(j).is_nil() {
                break;
            }
            i = j;
            step *= 2.0;
            if j > 9.0e15 {
                return j;
            }
        }
        self.bisect(i, j)
    }

    fn bisect(&self, mut i: f64, mut j: f64) -> f64 {
        while j - i > 1.0 {
            let m = ((i + j) / 2.0).floor();
            if self.get_int(m).is_nil() {
                j = m;
            } else {
                i = m;
            }
        }
        self.hint.set(i);
        i
    }

    /// live (key, value) pairs in insertion order
    pub fn entries(&self) -> impl Iterator<Item = &(Value, Value)> {
        self.slots.iter().filter(|(_, v)| !v.is_nil())
    }
}
