//! The evaluator: statements, expressions, calls, metamethod dispatch.

use super::fmt;
use super::snap;
use super::stdlib::{Builtin, HostKind};
use super::value::*;
use super::{Config, Dialect, Event, Outcome, PresetValue, RequireHost};
use crate::luasyn::ast::*;
use std::collections::HashMap;
use std::rc::Rc;

pub(crate) enum LuaErr {
    /// raised by the interpreter itself (type errors, calling nil, ...); the text is for humans
    Runtime(String),
    /// `error(v)` / failed `assert`
    User(Value),
    Stack,
    Require(String),
}

pub(crate) enum Abort {
    Err(LuaErr),
    OutOfSteps,
}

pub(crate) type R<T> = Result<T, Abort>;

pub(crate) fn rt<T>(msg: impl Into<String>) -> R<T> {
    Err(Abort::Err(LuaErr::Runtime(msg.into())))
}

pub(crate) const MM_INDEX: usize = 0;
pub(crate) const MM_NEWINDEX: usize = 1;
pub(crate) const MM_CALL: usize = 2;
pub(crate) const MM_ADD: usize = 3;
pub(crate) const MM_SUB: usize = 4;
pub(crate) const MM_MUL: usize = 5;
pub(crate) const MM_DIV: usize = 6;
pub(crate) const MM_MOD: usize = 7;
pub(crate) const MM_POW: usize = 8;
pub(crate) const MM_UNM: usize = 9;
pub(crate) const MM_IDIV: usize = 10;
pub(crate) const MM_CONCAT: usize = 11;
pub(crate) const MM_EQ: usize = 12;
pub(crate) const MM_LT: usize = 13;
pub(crate) const MM_LE: usize = 14;
pub(crate) const MM_LEN: usize = 15;
pub(crate) const MM_TOSTRING: usize = 16;
pub(crate) const MM_METATABLE: usize = 17;
pub(crate) const MM_ITER: usize = 18;
pub(crate) const MM_NAMES: [&str; 19] = [
    "__index",
    "__newindex",
    "__call",
    "__add",
    "__sub",
    "__mul",
    "__div",
    "__mod",
    "__pow",
    "__unm",
    "__idiv",
    "__concat",
    "__eq",
    "__lt",
    "__le",
    "__len",
    "__tostring",
    "__metatable",
    "__iter",
];
/// the metamethods a loud table implements
pub(crate) const LOUD_COUNT: usize = 17;

/// bound on nested `eval` / `exec_block` activations (guards the native stack)
const MAX_NATIVE_DEPTH: usize = 6_000;
/// longest string a program may build; exceeding it ends the run like an exhausted step budget
pub(crate) const MAX_STRING: usize = 1 << 20;

type Scope<'a> = Vec<(&'a str, u32)>;

#[derive(Clone)]
pub(crate) struct LuaFn<'a> {
    pub body: &'a FuncBody,
    pub captured: Rc<Scope<'a>>,
    pub has_self: bool,
    pub chunk: u32,
}

pub(crate) enum FuncObj<'a> {
    Lua(LuaFn<'a>),
    Builtin(Builtin),
    Host { name: Rc<str>, kind: HostKind },
}

pub(crate) struct Frame<'a> {
    captured: Rc<Scope<'a>>,
    locals: Scope<'a>,
    varargs: Vec<Value>,
    is_vararg: bool,
}

pub(crate) enum Flow {
    Normal,
    Break,
    Continue,
    Return(Vec<Value>),
}

enum Target {
    Local(u32),
    Global(Bytes),
    Index(Value, Value),
}

pub(crate) enum ModState {
    Loading,
    Loaded(Value),
}

pub(crate) struct Interp<'a, 'h> {
    pub dialect: Dialect,
    pub cfg: &'a Config,
    pub tables: Vec<TableObj>,
    pub funcs: Vec<FuncObj<'a>>,
    cells: Vec<Value>,
    closures_created: u64,
    pub globals: u32,
    pub string_meta: u32,
    pub loud_meta: Option<u32>,
    pub trace: Vec<Event>,
    steps_left: u64,
    call_depth: usize,
    native_depth: usize,
    pub host: Option<&'h mut (dyn RequireHost + 'h)>,
    pub chunk_names: Vec<String>,
    pub cur_chunk: u32,
    pub module_cache: HashMap<String, ModState>,
    /// keeps module blocks alive for the whole run (closures borrow from them)
    pub modules: Vec<Rc<Block>>,
    names: FxMap<(usize, usize), Bytes>,
    pub mm: Vec<Bytes>,
    pub next_fn: Value,
}

pub(crate) fn run_main<'a, 'h>(
    block: &'a Block,
    cfg: &'a Config,
    host: Option<&'h mut (dyn RequireHost + 'h)>,
    chunk_name: &str,
    loud: &[String],
) -> Outcome {
    run_main_msg(block, cfg, host, chunk_name, loud).0
}

/// also returns the human-readable message of an escaping interpreter / require error
pub(crate) fn run_main_msg<'a, 'h>(
    block: &'a Block,
    cfg: &'a Config,
    host: Option<&'h mut (dyn RequireHost + 'h)>,
    chunk_name: &str,
    loud: &[String],
) -> (Outcome, Option<String>) {
    let has_host = host.is_some();
    let mut it = Interp {
        dialect: cfg.dialect,
        cfg,
        tables: Vec::new(),
        funcs: Vec::new(),
        cells: Vec::new(),
        closures_created: 0,
        globals: 0,
        string_meta: 0,
        loud_meta: None,
        trace: Vec::new(),
        steps_left: cfg.step_budget,
        call_depth: 0,
        native_depth: 0,
        host,
        chunk_names: vec![chunk_name.to_string()],
        cur_chunk: 0,
        module_cache: HashMap::new(),
        modules: Vec::new(),
        names: FxMap::default(),
        mm: MM_NAMES.iter().map(|s| Rc::from(s.as_bytes())).collect(),
        next_fn: Value::Nil,
    };
    it.install_stdlib(has_host);
    for (name, pv) in &cfg.preset_globals {
        let v = it.preset_to_value(pv);
        it.set_global(name.as_bytes(), v);
    }
    it.install_loud(loud);
    let r = it.run_chunk(block);
    let trace = std::mem::take(&mut it.trace);
    match r {
        Ok(vals) => {
            let ret = vals.iter().map(|v| snap::snapshot(&it, v).0).collect();
            (Outcome::Done { trace, ret }, None)
        }
        Err(Abort::OutOfSteps) => (Outcome::OutOfSteps { trace }, None),
        Err(Abort::Err(e)) => {
            let (class, msg) = match e {
                LuaErr::Runtime(m) => ("runtime".to_string(), Some(m)),
                LuaErr::User(v) => (format!("user:{}", snap::snapshot(&it, &v).0), None),
                LuaErr::Stack => ("stack".to_string(), None),
                LuaErr::Require(m) => ("require".to_string(), Some(m)),
            };
            (Outcome::Error { trace, class }, msg)
        }
    }
}

impl<'a, 'h> Interp<'a, 'h> {
    // ------------------------------------------------------------------ allocation helpers

    pub(crate) fn new_table(&mut self) -> u32 {
        self.tables.push(TableObj::new());
        (self.tables.len() - 1) as u32
    }

    pub(crate) fn new_func(&mut self, f: FuncObj<'a>) -> Value {
        self.funcs.push(f);
        Value::Func((self.funcs.len() - 1) as u32)
    }

    fn new_cell(&mut self, v: Value) -> u32 {
        self.cells.push(v);
        (self.cells.len() - 1) as u32
    }

    pub(crate) fn set_global(&mut self, name: &[u8], v: Value) {
        let g = self.globals as usize;
        let _ = self.tables[g].set(Value::str(name), v);
    }

    pub(crate) fn preset_to_value(&mut self, pv: &PresetValue) -> Value {
        match pv {
            PresetValue::Nil => Value::Nil,
            PresetValue::Bool(b) => Value::Bool(*b),
            PresetValue::Num(n) => Value::Num(*n),
            PresetValue::Str(s) => Value::str(s),
            PresetValue::Array(items) => {
                let t = self.new_table();
                for (i, item) in items.iter().enumerate() {
                    let v = self.preset_to_value(item);
                    let _ = self.tables[t as usize].set(Value::Num((i + 1) as f64), v);
                }
                Value::Table(t)
            }
            PresetValue::Object(fields) => {
                let t = self.new_table();
                for (k, item) in fields {
                    let v = self.preset_to_value(item);
                    let _ = self.tables[t as usize].set(Value::str(k.as_bytes()), v);
                }
                Value::Table(t)
            }
        }
    }

    /// interned byte string for a piece of AST text (keyed by address: the AST is immutable and
    /// outlives the run)
    fn ast_bytes(&mut self, s: &[u8]) -> Bytes {
        let key = (s.as_ptr() as usize, s.len());
        if let Some(b) = self.names.get(&key) {
            return b.clone();
        }
        let b: Bytes = Rc::from(s);
        self.names.insert(key, b.clone());
        b
    }

    // ------------------------------------------------------------------ budget

    #[inline]
    pub(crate) fn step(&mut self) -> R<()> {
        if self.steps_left == 0 {
            return Err(Abort::OutOfSteps);
        }
        self.steps_left -= 1;
        Ok(())
    }

    pub(crate) fn charge(&mut self, n: u64) -> R<()> {
        if self.steps_left < n {
            self.steps_left = 0;
            return Err(Abort::OutOfSteps);
        }
        self.steps_left -= n;
        Ok(())
    }

    /// every string a program builds is paid for (64 bytes a step) and bounded
    pub(crate) fn new_string(&mut self, bytes: Vec<u8>) -> R<Value> {
        if bytes.len() > MAX_STRING {
            // a resource limit of the harness, not a Lua error: not catchable
            return Err(Abort::OutOfSteps);
        }
        if bytes.len() >= 64 {
            self.charge((bytes.len() / 64) as u64)?;
        }
        Ok(Value::Str(Rc::from(bytes)))
    }

    #[inline]
    fn enter(&mut self) -> R<()> {
        self.native_depth += 1;
        if self.native_depth > MAX_NATIVE_DEPTH {
            self.native_depth -= 1;
            return Err(Abort::Err(LuaErr::Stack));
        }
        Ok(())
    }

    pub(crate) fn emit_event(&mut self, name: &str, args: &[Value]) -> R<()> {
        let mut snaps = Vec::with_capacity(args.len());
        let mut nodes = 0u64;
        for a in args {
            let (s, n) = snap::snapshot(self, a);
            nodes += n;
            snaps.push(s);
        }
        self.trace.push(Event { name: name.to_string(), args: snaps });
        if nodes >= 16 {
            self.charge(nodes / 16)?;
        }
        Ok(())
    }

    // ------------------------------------------------------------------ chunks

    fn run_chunk(&mut self, block: &'a Block) -> R<Vec<Value>> {
        let mut frame = Frame {
            captured: Rc::new(Vec::new()),
            locals: Vec::new(),
            varargs: Vec::new(),
            is_vararg: true,
        };
        match self.exec_block(block, &mut frame)? {
            Flow::Return(v) => Ok(v),
            _ => Ok(Vec::new()),
        }
    }

    /// runs a module chunk handed over by the require host
    pub(crate) fn run_module(&mut self, block: Rc<Block>, chunk_name: &str) -> R<Vec<Value>> {
        // SAFETY: the Rc is stored in `self.modules` and never removed, so the block outlives
        // every closure created from it; values never escape the interpreter (an `Outcome`
        // holds only strings), and the interpreter is dropped before `run_main` returns.
        let b: &'a Block = unsafe { &*Rc::as_ptr(&block) };
        self.modules.push(block);
        self.chunk_names.push(chunk_name.to_string());
        let saved = self.cur_chunk;
        self.cur_chunk = (self.chunk_names.len() - 1) as u32;
        let r = self.run_chunk(b);
        self.cur_chunk = saved;
        r
    }

    // ------------------------------------------------------------------ statements

    fn exec_block(&mut self, block: &'a Block, fr: &mut Frame<'a>) -> R<Flow> {
        self.enter()?;
        let base = fr.locals.len();
        let cbase = self.cells.len();
        let cc = self.closures_created;
        let r = self.exec_stmts(block, fr);
        self.leave_scope(fr, base, cbase, cc);
        self.native_depth -= 1;
        r
    }

    #[inline]
    fn leave_scope(&mut self, fr: &mut Frame<'a>, base: usize, cbase: usize, cc: u64) {
        fr.locals.truncate(base);
        // cells are allocated in stack order; if no closure was created since the scope was
        // entered nothing can still refer to the cells allocated in it
        if cc == self.closures_created {
            self.cells.truncate(cbase);
        }
    }

    fn exec_stmts(&mut self, block: &'a Block, fr: &mut Frame<'a>) -> R<Flow> {
        for st in &block.stmts {
            self.step()?;
            match self.exec_stmt(st, fr)? {
                Flow::Normal => {}
                other => return Ok(other),
            }
        }
        Ok(Flow::Normal)
    }

    fn declare(&mut self, fr: &mut Frame<'a>, name: &'a str, v: Value) {
        let c = self.new_cell(v);
        fr.locals.push((name, c));
    }

    fn lookup(&self, fr: &Frame<'a>, name: &str) -> Option<u32> {
        for (n, c) in fr.locals.iter().rev() {
            if *n == name {
                return Some(*c);
            }
        }
        for (n, c) in fr.captured.iter().rev() {
            if *n == name {
                return Some(*c);
            }
        }
        None
    }

    fn get_var(&mut self, fr: &Frame<'a>, name: &'a str) -> Value {
        match self.lookup(fr, name) {
            Some(c) => self.cells[c as usize].clone(),
            None => {
                let k = self.ast_bytes(name.as_bytes());
                self.tables[self.globals as usize].get_str(&k)
            }
        }
    }

    fn set_var(&mut self, fr: &Frame<'a>, name: &'a str, v: Value) {
        match self.lookup(fr, name) {
            Some(c) => self.cells[c as usize] = v,
            None => {
                let k = self.ast_bytes(name.as_bytes());
                let g = self.globals as usize;
                let _ = self.tables[g].set(Value::Str(k), v);
            }
        }
    }

    fn make_closure(&mut self, fr: &Frame<'a>, body: &'a FuncBody, has_self: bool) -> Value {
        let captured = if fr.locals.is_empty() {
            fr.captured.clone()
        } else {
            let mut v = Vec::with_capacity(fr.captured.len() + fr.locals.len());
            v.extend_from_slice(&fr.captured);
            v.extend_from_slice(&fr.locals);
            Rc::new(v)
        };
        self.closures_created += 1;
        let chunk = self.cur_chunk;
        self.new_func(FuncObj::Lua(LuaFn { body, captured, has_self, chunk }))
    }

    fn eval_target(&mut self, e: &'a Expr, fr: &mut Frame<'a>) -> R<Target> {
        match e {
            Expr::Name(n) => Ok(match self.lookup(fr, n) {
                Some(c) => Target::Local(c),
                None => Target::Global(self.ast_bytes(n.as_bytes())),
            }),
            Expr::Index { obj, key } => {
                let o = self.eval(obj, fr)?;
                let k = self.eval(key, fr)?;
                Ok(Target::Index(o, k))
            }
            Expr::Field { obj, name } => {
                let o = self.eval(obj, fr)?;
                let k = self.ast_bytes(name.as_bytes());
                Ok(Target::Index(o, Value::Str(k)))
            }
            Expr::Paren(inner) | Expr::Cast { expr: inner, .. } => self.eval_target(inner, fr),
            _ => rt("cannot assign to this expression"),
        }
    }

    fn read_target(&mut self, t: &Target) -> R<Value> {
        match t {
            Target::Local(c) => Ok(self.cells[*c as usize].clone()),
            Target::Global(k) => Ok(self.tables[self.globals as usize].get_str(k)),
            Target::Index(o, k) => self.index(o, k),
        }
    }

    fn store_target(&mut self, t: Target, v: Value) -> R<()> {
        match t {
            Target::Local(c) => {
                self.cells[c as usize] = v;
                Ok(())
            }
            Target::Global(k) => {
                let g = self.globals as usize;
                let _ = self.tables[g].set(Value::Str(k), v);
                Ok(())
            }
            Target::Index(o, k) => self.set_index(&o, k, v),
        }
    }

    #[inline(never)]
    fn exec_local(&mut self, names: &'a [Binding], values: &'a [Expr], fr: &mut Frame<'a>) -> R<Flow> {
        let mut vals = self.eval_list(values, fr)?.into_iter();
        for b in names {
            let v = vals.next().unwrap_or(Value::Nil);
            self.declare(fr, &b.name, v);
        }
        Ok(Flow::Normal)
    }

    #[inline(never)]
    fn exec_assign(&mut self, targets: &'a [Expr], values: &'a [Expr], fr: &mut Frame<'a>) -> R<Flow> {
        if targets.len() == 1 {
            let t = self.eval_target(&targets[0], fr)?;
            let v = if values.len() == 1 {
                self.eval(&values[0], fr)?
            } else {
                self.eval_list(values, fr)?.into_iter().next().unwrap_or(Value::Nil)
            };
            self.store_target(t, v)?;
            return Ok(Flow::Normal);
        }
        let mut ts = Vec::with_capacity(targets.len());
        for t in targets {
            ts.push(self.eval_target(t, fr)?);
        }
        let mut vals = self.eval_list(values, fr)?.into_iter();
        for t in ts {
            let v = vals.next().unwrap_or(Value::Nil);
            self.store_target(t, v)?;
        }
        Ok(Flow::Normal)
    }

    #[inline(never)]
    fn exec_compound(&mut self, target: &'a Expr, op: BinOp, value: &'a Expr, fr: &mut Frame<'a>) -> R<Flow> {
        let t = self.eval_target(target, fr)?;
        let cur = self.read_target(&t)?;
        let rhs = self.eval(value, fr)?;
        let v = self.binary(op, &cur, &rhs)?;
        self.store_target(t, v)?;
        Ok(Flow::Normal)
    }

    #[inline(never)]
    fn exec_while(&mut self, cond: &'a Expr, body: &'a Block, fr: &mut Frame<'a>) -> R<Flow> {
        loop {
            self.step()?;
            if !self.eval(cond, fr)?.truthy() {
                break;
            }
            match self.exec_block(body, fr)? {
                Flow::Break => break,
                Flow::Return(v) => return Ok(Flow::Return(v)),
                Flow::Normal | Flow::Continue => {}
            }
        }
        Ok(Flow::Normal)
    }

    #[inline(never)]
    fn exec_repeat(&mut self, body: &'a Block, cond: &'a Expr, fr: &mut Frame<'a>) -> R<Flow> {
        loop {
            self.step()?;
            self.enter()?;
            let base = fr.locals.len();
            let cbase = self.cells.len();
            let cc = self.closures_created;
            // the condition sees the body's locals
            let r = match self.exec_stmts(body, fr) {
                Ok(Flow::Normal) | Ok(Flow::Continue) => match self.eval(cond, fr) {
                    Ok(c) => Ok(if c.truthy() { Flow::Break } else { Flow::Normal }),
                    Err(e) => Err(e),
                },
                other => other,
            };
            self.leave_scope(fr, base, cbase, cc);
            self.native_depth -= 1;
            match r? {
                Flow::Break => break,
                Flow::Return(v) => return Ok(Flow::Return(v)),
                Flow::Normal | Flow::Continue => {}
            }
        }
        Ok(Flow::Normal)
    }

    #[inline(never)]
    fn exec_numfor(&mut self, var: &'a Binding, start: &'a Expr, limit: &'a Expr, step: Option<&'a Expr>, body: &'a Block, fr: &mut Frame<'a>) -> R<Flow> {
        let v0 = self.eval(start, fr)?;
        let v1 = self.eval(limit, fr)?;
        let v2 = match step {
            Some(s) => Some(self.eval(s, fr)?),
            None => None,
        };
        let Some(mut i) = self.to_num(&v0) else {
            return rt("'for' initial value must be a number");
        };
        let Some(lim) = self.to_num(&v1) else {
            return rt("'for' limit must be a number");
        };
        let stp = match &v2 {
            None => 1.0,
            Some(v) => match self.to_num(v) {
                Some(s) => s,
                None => return rt("'for' step must be a number"),
            },
        };
        if stp == 0.0 {
            return rt("'for' step is zero");
        }
        loop {
            let go = if stp > 0.0 { i <= lim } else { i >= lim };
            if !go {
                break;
            }
            self.step()?;
            let base = fr.locals.len();
            let cbase = self.cells.len();
            let cc = self.closures_created;
            self.declare(fr, &var.name, Value::Num(i));
            let r = self.exec_block(body, fr);
            self.leave_scope(fr, base, cbase, cc);
            match r? {
                Flow::Break => break,
                Flow::Return(v) => return Ok(Flow::Return(v)),
                Flow::Normal | Flow::Continue => {}
            }
            i += stp;
        }
        Ok(Flow::Normal)
    }

    #[inline(never)]
    fn exec_genfor(&mut self, vars: &'a [Binding], exprs: &'a [Expr], body: &'a Block, fr: &mut Frame<'a>) -> R<Flow> {
        let mut init = self.eval_list(exprs, fr)?.into_iter();
        let mut f = init.next().unwrap_or(Value::Nil);
        let mut s = init.next().unwrap_or(Value::Nil);
        let mut c = init.next().unwrap_or(Value::Nil);
        if self.dialect == Dialect::Luau {
            if let Value::Table(_) = f {
                if self.metamethod(&f, MM_CALL).is_nil() {
                    super::note_dialect_event(0);
                    let it = self.metamethod(&f, MM_ITER);
                    if it.is_nil() {
                        s = f;
                        f = self.next_fn.clone();
                        c = Value::Nil;
                    } else {
                        let mut r = self.call(&it, vec![f.clone()])?.into_iter();
                        f = r.next().unwrap_or(Value::Nil);
                        s = r.next().unwrap_or(Value::Nil);
                        c = r.next().unwrap_or(Value::Nil);
                    }
                }
            }
        }
        loop {
            self.step()?;
            let mut rs = self.call(&f, vec![s.clone(), c.clone()])?.into_iter();
            let first = rs.next().unwrap_or(Value::Nil);
            if first.is_nil() {
                break;
            }
            c = first.clone();
            let base = fr.locals.len();
            let cbase = self.cells.len();
            let cc = self.closures_created;
            let mut cur = Some(first);
            for b in vars {
                let v = match cur.take() {
                    Some(v) => v,
                    None => rs.next().unwrap_or(Value::Nil),
                };
                self.declare(fr, &b.name, v);
            }
            let r = self.exec_block(body, fr);
            self.leave_scope(fr, base, cbase, cc);
            match r? {
                Flow::Break => break,
                Flow::Return(v) => return Ok(Flow::Return(v)),
                Flow::Normal | Flow::Continue => {}
            }
        }
        Ok(Flow::Normal)
    }

    #[inline(never)]
    fn exec_function_stmt(&mut self, name: &'a FuncName, func: &'a FuncBody, fr: &mut Frame<'a>) -> R<Flow> {
        let has_self = name.method.is_some();
        let clo = self.make_closure(fr, func, has_self);
        if name.fields.is_empty() && name.method.is_none() {
            self.set_var(fr, &name.base, clo);
            return Ok(Flow::Normal);
        }
        let mut obj = self.get_var(fr, &name.base);
        let mut path: Vec<&'a str> = name.fields.iter().map(|s| s.as_str()).collect();
        if let Some(m) = &name.method {
            path.push(m.as_str());
        }
        let last = path.pop().expect("non-empty function name path");
        for p in path {
            let k = self.ast_bytes(p.as_bytes());
            obj = self.index(&obj, &Value::Str(k))?;
        }
        let k = self.ast_bytes(last.as_bytes());
        self.set_index(&obj, Value::Str(k), clo)?;
        Ok(Flow::Normal)
    }

    fn exec_stmt(&mut self, st: &'a Stmt, fr: &mut Frame<'a>) -> R<Flow> {
        match st {
            Stmt::Local { names, values, .. } => self.exec_local(names, values, fr),
            Stmt::Assign { targets, values } => self.exec_assign(targets, values, fr),
            Stmt::CompoundAssign { target, op, value } => self.exec_compound(target, *op, value, fr),
            Stmt::Call(e) => {
                self.enter()?;
                let r = self.eval_call(e, fr);
                self.native_depth -= 1;
                r?;
                Ok(Flow::Normal)
            }
            Stmt::Do(b) => self.exec_block(b, fr),
            Stmt::While { cond, body } => self.exec_while(cond, body, fr),
            Stmt::Repeat { body, cond } => self.exec_repeat(body, cond, fr),
            Stmt::If { clauses, else_ } => {
                for (c, b) in clauses {
                    if self.eval(c, fr)?.truthy() {
                        return self.exec_block(b, fr);
                    }
                }
                match else_ {
                    Some(b) => self.exec_block(b, fr),
                    None => Ok(Flow::Normal),
                }
            }
            Stmt::NumFor { var, start, limit, step, body } => self.exec_numfor(var, start, limit, step.as_ref(), body, fr),
            Stmt::GenFor { vars, exprs, body } => self.exec_genfor(vars, exprs, body, fr),
            Stmt::Function { name, func, .. } => self.exec_function_stmt(name, func, fr),
            Stmt::LocalFunction { name, func, .. } => {
                self.declare(fr, name, Value::Nil);
                let cell = fr.locals.last().expect("just declared").1;
                let clo = self.make_closure(fr, func, false);
                self.cells[cell as usize] = clo;
                Ok(Flow::Normal)
            }
            Stmt::Return(exprs) => {
                let vals = self.eval_list(exprs, fr)?;
                Ok(Flow::Return(vals))
            }
            Stmt::Break => Ok(Flow::Break),
            Stmt::Continue => Ok(Flow::Continue),
            Stmt::TypeDecl { .. } | Stmt::TypeFunction { .. } => Ok(Flow::Normal),
        }
    }

    // ------------------------------------------------------------------ expressions

    /// expression list with Lua's adjustment: every expression but the last yields one value,
    /// a call / `...` in last position is expanded
    fn eval_list(&mut self, exprs: &'a [Expr], fr: &mut Frame<'a>) -> R<Vec<Value>> {
        let mut out = Vec::with_capacity(exprs.len());
        self.eval_list_into(exprs, fr, &mut out)?;
        Ok(out)
    }

    fn eval_list_into(
        &mut self,
        exprs: &'a [Expr],
        fr: &mut Frame<'a>,
        out: &mut Vec<Value>,
    ) -> R<()> {
        let n = exprs.len();
        for (i, e) in exprs.iter().enumerate() {
            if i + 1 == n {
                self.eval_multi(e, fr, out)?;
            } else {
                let v = self.eval(e, fr)?;
                out.push(v);
            }
        }
        Ok(())
    }

    fn eval_multi(&mut self, e: &'a Expr, fr: &mut Frame<'a>, out: &mut Vec<Value>) -> R<()> {
        match e {
            Expr::Call { .. } | Expr::MethodCall { .. } => {
                self.enter()?;
                let r = self.eval_call(e, fr);
                self.native_depth -= 1;
                out.extend(r?);
                Ok(())
            }
            Expr::Vararg => {
                if !fr.is_vararg {
                    return rt("cannot use '...' outside a vararg function");
                }
                out.extend(fr.varargs.iter().cloned());
                Ok(())
            }
            _ => {
                let v = self.eval(e, fr)?;
                out.push(v);
                Ok(())
            }
        }
    }

    fn eval_call(&mut self, e: &'a Expr, fr: &mut Frame<'a>) -> R<Vec<Value>> {
        match e {
            Expr::Call { f, args, .. } => {
                let fv = self.eval(f, fr)?;
                let argv = self.eval_list(args, fr)?;
                self.call(&fv, argv)
            }
            Expr::MethodCall { obj, name, args, .. } => {
                let o = self.eval(obj, fr)?;
                let k = self.ast_bytes(name.as_bytes());
                let fv = self.index(&o, &Value::Str(k))?;
                let mut argv = Vec::with_capacity(args.len() + 1);
                argv.push(o);
                self.eval_list_into(args, fr, &mut argv)?;
                self.call(&fv, argv)
            }
            _ => rt("not a call"),
        }
    }

    pub(crate) fn eval(&mut self, e: &'a Expr, fr: &mut Frame<'a>) -> R<Value> {
        self.enter()?;
        let r = self.eval_inner(e, fr);
        self.native_depth -= 1;
        r
    }

    #[inline(never)]
    fn eval_interp(&mut self, segs: &'a [InterpSeg], fr: &mut Frame<'a>) -> R<Value> {
        // Luau compiles `a{x}b{y}` to ("a%*b%*"):format(x, y): every expression is evaluated
        // first (left to right), the conversions to string (and their __tostring calls) follow
        let mut values: Vec<Value> = Vec::new();
        for s in segs {
            if let InterpSeg::Expr(x) = s {
                values.push(self.eval(x, fr)?);
            }
        }
        let mut out: Vec<u8> = Vec::new();
        let mut k = 0;
        for s in segs {
            match s {
                InterpSeg::Str(b) => out.extend_from_slice(b),
                InterpSeg::Expr(_) => {
                    let b = self.tostring_bytes(&values[k])?;
                    k += 1;
                    out.extend_from_slice(&b);
                }
            }
        }
        self.new_string(out)
    }

    #[inline(never)]
    fn eval_table(&mut self, items: &'a [TableItem], fr: &mut Frame<'a>) -> R<Value> {
        let t = self.new_table();
        let mut pos = 1f64;
        let n = items.len();
        for (i, item) in items.iter().enumerate() {
            match item {
                TableItem::Pos(x) => {
                    if i + 1 == n {
                        let mut vals = Vec::new();
                        self.eval_multi(x, fr, &mut vals)?;
                        for v in vals {
                            let _ = self.tables[t as usize].set(Value::Num(pos), v);
                            pos += 1.0;
                        }
                    } else {
                        let v = self.eval(x, fr)?;
                        let _ = self.tables[t as usize].set(Value::Num(pos), v);
                        pos += 1.0;
                    }
                }
                TableItem::Named(name, x) => {
                    let v = self.eval(x, fr)?;
                    let k = self.ast_bytes(name.as_bytes());
                    let _ = self.tables[t as usize].set(Value::Str(k), v);
                }
                TableItem::Keyed(kx, x) => {
                    let k = self.eval(kx, fr)?;
                    let v = self.eval(x, fr)?;
                    self.raw_set(t, k, v)?;
                }
            }
        }
        Ok(Value::Table(t))
    }

    fn eval_inner(&mut self, e: &'a Expr, fr: &mut Frame<'a>) -> R<Value> {
        match e {
            Expr::Nil => Ok(Value::Nil),
            Expr::True => Ok(Value::Bool(true)),
            Expr::False => Ok(Value::Bool(false)),
            Expr::Number { value, .. } => Ok(Value::Num(*value)),
            Expr::Str { value, .. } => Ok(Value::Str(self.ast_bytes(value))),
            Expr::Vararg => {
                if !fr.is_vararg {
                    return rt("cannot use '...' outside a vararg function");
                }
                Ok(fr.varargs.first().cloned().unwrap_or(Value::Nil))
            }
            Expr::Interp(segs) => self.eval_interp(segs, fr),
            Expr::Name(n) => Ok(self.get_var(fr, n)),
            Expr::Index { obj, key } => {
                let o = self.eval(obj, fr)?;
                let k = self.eval(key, fr)?;
                self.index(&o, &k)
            }
            Expr::Field { obj, name } => {
                let o = self.eval(obj, fr)?;
                let k = self.ast_bytes(name.as_bytes());
                self.index(&o, &Value::Str(k))
            }
            Expr::Call { .. } | Expr::MethodCall { .. } => {
                let r = self.eval_call(e, fr)?;
                Ok(r.into_iter().next().unwrap_or(Value::Nil))
            }
            Expr::Function { func, .. } => Ok(self.make_closure(fr, func, false)),
            Expr::Paren(inner) => self.eval(inner, fr),
            Expr::Cast { expr, .. } => self.eval(expr, fr),
            Expr::Instantiate { expr, .. } => self.eval(expr, fr),
            Expr::Unary(op, x) => {
                let v = self.eval(x, fr)?;
                self.unary(*op, &v)
            }
            Expr::Binary(op, l, r) => match op {
                BinOp::And => {
                    let a = self.eval(l, fr)?;
                    if a.truthy() {
                        self.eval(r, fr)
                    } else {
                        Ok(a)
                    }
                }
                BinOp::Or => {
                    let a = self.eval(l, fr)?;
                    if a.truthy() {
                        Ok(a)
                    } else {
                        self.eval(r, fr)
                    }
                }
                _ => {
                    let a = self.eval(l, fr)?;
                    let b = self.eval(r, fr)?;
                    self.binary(*op, &a, &b)
                }
            },
            Expr::Table(items) => self.eval_table(items, fr),
            Expr::IfExpr { clauses, else_ } => {
                for (c, v) in clauses {
                    if self.eval(c, fr)?.truthy() {
                        return self.eval(v, fr);
                    }
                }
                self.eval(else_, fr)
            }
        }
    }

    // ------------------------------------------------------------------ calls

    pub(crate) fn call(&mut self, f: &Value, mut args: Vec<Value>) -> R<Vec<Value>> {
        self.step()?;
        match f {
            Value::Func(id) => self.call_func(*id, args),
            _ => {
                let h = self.metamethod(f, MM_CALL);
                match h {
                    Value::Func(id) => {
                        args.insert(0, f.clone());
                        self.call_func(id, args)
                    }
                    _ => rt(format!("attempt to call a {} value", f.type_name())),
                }
            }
        }
    }

    fn call_func(&mut self, id: u32, args: Vec<Value>) -> R<Vec<Value>> {
        if self.call_depth >= self.cfg.max_call_depth {
            return Err(Abort::Err(LuaErr::Stack));
        }
        self.call_depth += 1;
        let r = match &self.funcs[id as usize] {
            FuncObj::Lua(f) => {
                let f = f.clone();
                self.call_lua(f, args)
            }
            FuncObj::Builtin(b) => {
                let b = *b;
                self.call_builtin(b, args)
            }
            FuncObj::Host { name, kind } => {
                let name = name.clone();
                let kind = *kind;
                self.call_host(&name, kind, args)
            }
        };
        self.call_depth -= 1;
        r
    }

    fn call_lua(&mut self, f: LuaFn<'a>, args: Vec<Value>) -> R<Vec<Value>> {
        let body = f.body;
        let mut fr = Frame {
            captured: f.captured,
            locals: Vec::with_capacity(body.params.len() + 4),
            varargs: Vec::new(),
            is_vararg: body.vararg,
        };
        let cbase = self.cells.len();
        let cc = self.closures_created;
        let mut it = args.into_iter();
        if f.has_self {
            let v = it.next().unwrap_or(Value::Nil);
            self.declare(&mut fr, "self", v);
        }
        for p in &body.params {
            let v = it.next().unwrap_or(Value::Nil);
            self.declare(&mut fr, &p.name, v);
        }
        if body.vararg {
            fr.varargs = it.collect();
        }
        let saved = self.cur_chunk;
        self.cur_chunk = f.chunk;
        let r = self.exec_block(&body.body, &mut fr);
        self.cur_chunk = saved;
        if cc == self.closures_created {
            self.cells.truncate(cbase);
        }
        match r? {
            Flow::Return(v) => Ok(v),
            _ => Ok(Vec::new()),
        }
    }

    /// calls `f` and keeps the first result
    pub(crate) fn call1(&mut self, f: &Value, args: Vec<Value>) -> R<Value> {
        Ok(self.call(f, args)?.into_iter().next().unwrap_or(Value::Nil))
    }

    // ------------------------------------------------------------------ metatables

    pub(crate) fn metatable_of(&self, v: &Value) -> Option<u32> {
        match v {
            Value::Table(t) => self.tables[*t as usize].meta,
            Value::Str(_) => Some(self.string_meta),
            _ => None,
        }
    }

    pub(crate) fn metamethod(&self, v: &Value, mm: usize) -> Value {
        match self.metatable_of(v) {
            Some(m) => self.tables[m as usize].get_str(&self.mm[mm]),
            None => Value::Nil,
        }
    }

    pub(crate) fn raw_set(&mut self, t: u32, k: Value, v: Value) -> R<()> {
        match self.tables[t as usize].set(k, v) {
            Ok(()) => Ok(()),
            Err(KeyError::Nil) => rt("table index is nil"),
            Err(KeyError::NaN) => rt("table index is NaN"),
        }
    }

    /// hashing / comparing a long string is paid for (256 bytes a step)
    #[inline]
    pub(crate) fn charge_str(&mut self, v: &Value) -> R<()> {
        if let Value::Str(s) = v {
            if s.len() >= 256 {
                return self.charge((s.len() / 256) as u64);
            }
        }
        Ok(())
    }

    pub(crate) fn index(&mut self, obj: &Value, key: &Value) -> R<Value> {
        self.charge_str(key)?;
        let mut cur = obj.clone();
        for _ in 0..100 {
            let h;
            if let Value::Table(t) = &cur {
                let tb = &self.tables[*t as usize];
                let v = tb.get(key);
                if !v.is_nil() {
                    return Ok(v);
                }
                match tb.meta {
                    None => return Ok(Value::Nil),
                    Some(m) => {
                        h = self.tables[m as usize].get_str(&self.mm[MM_INDEX]);
                        if h.is_nil() {
                            return Ok(Value::Nil);
                        }
                    }
                }
            } else {
                h = self.metamethod(&cur, MM_INDEX);
                if h.is_nil() {
                    return rt(format!("attempt to index a {} value", cur.type_name()));
                }
            }
            if let Value::Func(_) = h {
                return self.call1(&h, vec![cur, key.clone()]);
            }
            cur = h;
        }
        rt("loop in gettable")
    }

    pub(crate) fn set_index(&mut self, obj: &Value, key: Value, val: Value) -> R<()> {
        self.charge_str(&key)?;
        let mut cur = obj.clone();
        for _ in 0..100 {
            let h;
            if let Value::Table(t) = &cur {
                let tb = &self.tables[*t as usize];
                let existing = tb.get(&key);
                if !existing.is_nil() {
                    return self.raw_set(*t, key, val);
                }
                match tb.meta {
                    None => return self.raw_set(*t, key, val),
                    Some(m) => {
                        h = self.tables[m as usize].get_str(&self.mm[MM_NEWINDEX]);
                        if h.is_nil() {
                            return self.raw_set(*t, key, val);
                        }
                    }
                }
            } else {
                h = self.metamethod(&cur, MM_NEWINDEX);
                if h.is_nil() {
                    return rt(format!("attempt to index a {} value", cur.type_name()));
                }
            }
            if let Value::Func(_) = h {
                self.call(&h, vec![cur, key, val])?;
                return Ok(());
            }
            cur = h;
        }
        rt("loop in settable")
    }

    // ------------------------------------------------------------------ operators

    /// the number a value stands for in arithmetic (numbers and convertible strings)
    pub(crate) fn to_num(&self, v: &Value) -> Option<f64> {
        match v {
            Value::Num(n) => Some(*n),
            Value::Str(s) => fmt::str_to_number(s, self.dialect),
            _ => None,
        }
    }

    fn arith_num(&self, op: BinOp, x: f64, y: f64) -> R<f64> {
        Ok(match op {
            BinOp::Add => x + y,
            BinOp::Sub => x - y,
            BinOp::Mul => x * y,
            BinOp::Div => x / y,
            BinOp::Pow => x.powf(y),
            BinOp::Mod => {
                let r51 = x - (x / y).floor() * y;
                let rluau = {
                    let mut r = x % y;
                    if r != 0.0 && ((r < 0.0) != (y < 0.0)) {
                        r += y;
                    }
                    r
                };
                if r51.to_bits() != rluau.to_bits() && !(r51.is_nan() && rluau.is_nan()) {
                    super::note_dialect_event(0);
                }
                match self.dialect {
                    Dialect::Lua51 => r51,
                    Dialect::Luau => rluau,
                }
            }
            BinOp::IDiv => {
                if self.dialect == Dialect::Lua51 {
                    return rt("'//' is not an operator of Lua 5.1");
                }
                (x / y).floor()
            }
            _ => return rt("not an arithmetic operator"),
        })
    }

    fn arith(&mut self, op: BinOp, a: &Value, b: &Value) -> R<Value> {
        if op == BinOp::IDiv && self.dialect == Dialect::Lua51 {
            return rt("'//' is not an operator of Lua 5.1");
        }
        if let (Some(x), Some(y)) = (self.to_num(a), self.to_num(b)) {
            return Ok(Value::Num(self.arith_num(op, x, y)?));
        }
        let mm = match op {
            BinOp::Add => MM_ADD,
            BinOp::Sub => MM_SUB,
            BinOp::Mul => MM_MUL,
            BinOp::Div => MM_DIV,
            BinOp::Mod => MM_MOD,
            BinOp::Pow => MM_POW,
            BinOp::IDiv => MM_IDIV,
            _ => return rt("not an arithmetic operator"),
        };
        let mut h = self.metamethod(a, mm);
        if h.is_nil() {
            h = self.metamethod(b, mm);
        }
        if h.is_nil() {
            let culprit = if self.to_num(a).is_none() { a } else { b };
            return rt(format!("attempt to perform arithmetic on a {} value", culprit.type_name()));
        }
        self.call1(&h, vec![a.clone(), b.clone()])
    }

    pub(crate) fn equals(&mut self, a: &Value, b: &Value) -> R<bool> {
        if let (Value::Str(x), Value::Str(y)) = (a, b) {
            if x.len() == y.len() && !Rc::ptr_eq(x, y) {
                self.charge_str(a)?;
            }
        }
        if raw_equal(a, b) {
            return Ok(true);
        }
        if let (Value::Table(_), Value::Table(_)) = (a, b) {
            let h1 = self.metamethod(a, MM_EQ);
            if h1.is_nil() {
                return Ok(false);
            }
            let h2 = self.metamethod(b, MM_EQ);
            if raw_equal(&h1, &h2) {
                return Ok(self.call1(&h1, vec![a.clone(), b.clone()])?.truthy());
            }
        }
        Ok(false)
    }

    fn less(&mut self, a: &Value, b: &Value, or_equal: bool) -> R<bool> {
        match (a, b) {
            (Value::Num(x), Value::Num(y)) => return Ok(if or_equal { x <= y } else { x < y }),
            (Value::Str(x), Value::Str(y)) => {
                if x.len() >= 256 && y.len() >= 256 {
                    self.charge((x.len().min(y.len()) / 256) as u64)?;
                }
                return Ok(if or_equal { x[..] <= y[..] } else { x[..] < y[..] })
            }
            _ => {}
        }
        let mm = if or_equal { MM_LE } else { MM_LT };
        let mut h = self.metamethod(a, mm);
        if h.is_nil() {
            h = self.metamethod(b, mm);
        }
        if h.is_nil() {
            return rt(format!("attempt to compare {} with {}", a.type_name(), b.type_name()));
        }
        Ok(self.call1(&h, vec![a.clone(), b.clone()])?.truthy())
    }

    pub(crate) fn concat(&mut self, a: &Value, b: &Value) -> R<Value> {
        let ok = |v: &Value| matches!(v, Value::Str(_) | Value::Num(_));
        if ok(a) && ok(b) {
            let mut out: Vec<u8> = Vec::new();
            for v in [a, b] {
                match v {
                    Value::Str(s) => out.extend_from_slice(s),
                    Value::Num(n) => out.extend_from_slice(fmt::fmt_number(*n, self.dialect).as_bytes()),
                    _ => unreachable!(),
                }
            }
            return self.new_string(out);
        }
        let mut h = self.metamethod(a, MM_CONCAT);
        if h.is_nil() {
            h = self.metamethod(b, MM_CONCAT);
        }
        if h.is_nil() {
            let culprit = if ok(a) { b } else { a };
            return rt(format!("attempt to concatenate a {} value", culprit.type_name()));
        }
        self.call1(&h, vec![a.clone(), b.clone()])
    }

    pub(crate) fn binary(&mut self, op: BinOp, a: &Value, b: &Value) -> R<Value> {
        match op {
            BinOp::Add | BinOp::Sub | BinOp::Mul | BinOp::Div | BinOp::Mod | BinOp::Pow | BinOp::IDiv => {
                if let (Value::Num(x), Value::Num(y)) = (a, b) {
                    return Ok(Value::Num(self.arith_num(op, *x, *y)?));
                }
                self.arith(op, a, b)
            }
            BinOp::Concat => self.concat(a, b),
            BinOp::Eq => Ok(Value::Bool(self.equals(a, b)?)),
            BinOp::Ne => Ok(Value::Bool(!self.equals(a, b)?)),
            BinOp::Lt => Ok(Value::Bool(self.less(a, b, false)?)),
            BinOp::Le => Ok(Value::Bool(self.less(a, b, true)?)),
            BinOp::Gt => Ok(Value::Bool(self.less(b, a, false)?)),
            BinOp::Ge => Ok(Value::Bool(self.less(b, a, true)?)),
            // only reachable from compound assignment, which has no `and=` / `or=`
            BinOp::And => Ok(if a.truthy() { b.clone() } else { a.clone() }),
            BinOp::Or => Ok(if a.truthy() { a.clone() } else { b.clone() }),
        }
    }

    pub(crate) fn length(&mut self, v: &Value) -> R<Value> {
        match v {
            Value::Str(s) => Ok(Value::Num(s.len() as f64)),
            Value::Table(t) => {
                let h = self.metamethod(v, MM_LEN);
                if !h.is_nil() {
                    return self.call1(&h, vec![v.clone()]);
                }
                Ok(Value::Num(self.tables[*t as usize].border()))
            }
            _ => rt(format!("attempt to get length of a {} value", v.type_name())),
        }
    }

    fn unary(&mut self, op: UnOp, v: &Value) -> R<Value> {
        match op {
            UnOp::Not => Ok(Value::Bool(!v.truthy())),
            UnOp::Neg => {
                if let Some(n) = self.to_num(v) {
                    return Ok(Value::Num(-n));
                }
                let h = self.metamethod(v, MM_UNM);
                if h.is_nil() {
                    return rt(format!("attempt to perform arithmetic on a {} value", v.type_name()));
                }
                self.call1(&h, vec![v.clone(), v.clone()])
            }
            UnOp::Len => self.length(v),
        }
    }

    // ------------------------------------------------------------------ tostring

    pub(crate) fn tostring_val(&mut self, v: &Value) -> R<Value> {
        let h = self.metamethod(v, MM_TOSTRING);
        if !h.is_nil() {
            return self.call1(&h, vec![v.clone()]);
        }
        Ok(match v {
            Value::Nil => Value::str(b"nil"),
            Value::Bool(true) => Value::str(b"true"),
            Value::Bool(false) => Value::str(b"false"),
            Value::Num(n) => Value::str(fmt::fmt_number(*n, self.dialect).as_bytes()),
            Value::Str(_) => v.clone(),
            Value::Table(_) => Value::str(b"table"),
            Value::Func(_) => Value::str(b"function"),
        })
    }

    /// `tostring` where a string is required (interpolation, `%s`): a `__tostring` result that
    /// is a number is formatted, anything else but a string is an error
    pub(crate) fn tostring_bytes(&mut self, v: &Value) -> R<Bytes> {
        match self.tostring_val(v)? {
            Value::Str(s) => Ok(s),
            Value::Num(n) => Ok(Rc::from(fmt::fmt_number(n, self.dialect).as_bytes())),
            _ => rt("'__tostring' must return a string"),
        }
    }
}
