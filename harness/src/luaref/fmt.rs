//! Number <-> string conversions and a C-printf work-alike for `string.format`.
//! Everything here is written from the C / Lua manuals; no code is shared with darklua.

use super::Dialect;

// ------------------------------------------------------------------ number -> string

/// decimal digits (no dot) and decimal exponent of `a` (finite, > 0) rounded to `prec + 1`
/// significant digits; `prec == usize::MAX` means shortest round-trip digits
fn sci_parts(a: f64, prec: usize) -> (Vec<u8>, i32) {
    let s = if prec == usize::MAX { format!("{:e}", a) } else { format!("{:.*e}", prec, a) };
    let (mant, exp) = s.split_once('e').expect("exponent in {:e} output");
    let digits: Vec<u8> = mant.bytes().filter(|b| b.is_ascii_digit()).collect();
    (digits, exp.parse::<i32>().expect("exponent"))
}

fn push_exp(out: &mut String, exp: i32, upper: bool) {
    out.push(if upper { 'E' } else { 'e' });
    out.push(if exp < 0 { '-' } else { '+' });
    let e = exp.unsigned_abs();
    if e < 10 {
        out.push('0');
    }
    out.push_str(&e.to_string());
}

/// C `%.{p}e` of |v| (no sign), v finite
fn fmt_e_abs(a: f64, p: usize, alt: bool, upper: bool) -> String {
    let (digits, exp) = if a == 0.0 { (vec![b'0'; p + 1], 0) } else { sci_parts(a, p) };
    let mut out = String::new();
    out.push(digits[0] as char);
    if p > 0 || alt {
        out.push('.');
    }
    for d in &digits[1..] {
        out.push(*d as char);
    }
    push_exp(&mut out, exp, upper);
    out
}

/// C `%.{p}f` of |v| (no sign), v finite
fn fmt_f_abs(a: f64, p: usize, alt: bool) -> String {
    let mut s = format!("{:.*}", p, a);
    if p == 0 && alt {
        s.push('.');
    }
    s
}

/// C `%.{p}g` of |v| (no sign), v finite
fn fmt_g_abs(a: f64, p: usize, alt: bool, upper: bool) -> String {
    let p = if p == 0 { 1 } else { p };
    let (mut digits, exp) = if a == 0.0 { (vec![b'0'; p], 0) } else { sci_parts(a, p - 1) };
    let mut out = String::new();
    if exp < -4 || exp >= p as i32 {
        if !alt {
            while digits.len() > 1 && *digits.last().unwrap() == b'0' {
                digits.pop();
            }
        }
        out.push(digits[0] as char);
        if digits.len() > 1 || alt {
            out.push('.');
        }
        for d in &digits[1..] {
            out.push(*d as char);
        }
        push_exp(&mut out, exp, upper);
    } else {
        // fixed notation with p-1-exp decimals: the same digit string, dot moved
        let mut int_part: Vec<u8> = Vec::new();
        let mut frac: Vec<u8> = Vec::new();
        if exp >= 0 {
            let n = exp as usize + 1;
            int_part.extend_from_slice(&digits[..n.min(digits.len())]);
            while int_part.len() < n {
                int_part.push(b'0');
            }
            if digits.len() > n {
                frac.extend_from_slice(&digits[n..]);
            }
        } else {
            int_part.push(b'0');
            for _ in 0..(-exp - 1) {
                frac.push(b'0');
            }
            frac.extend_from_slice(&digits);
        }
        if !alt {
            while let Some(b'0') = frac.last() {
                frac.pop();
            }
        }
        out.push_str(std::str::from_utf8(&int_part).unwrap());
        if !frac.is_empty() || alt {
            out.push('.');
            out.push_str(std::str::from_utf8(&frac).unwrap());
        }
    }
    out
}

/// Luau `tostring(number)`: shortest round-trip digits; plain notation when the position of the
/// decimal point relative to the first digit is in -5 ..= 21, else scientific
fn fmt_shortest_abs(a: f64) -> String {
    if a == 0.0 {
        return "0".to_string();
    }
    let (mut digits, exp) = sci_parts(a, usize::MAX);
    while digits.len() > 1 && *digits.last().unwrap() == b'0' {
        digits.pop();
    }
    let declen = digits.len() as i32;
    let dot = exp + 1;
    let ds = std::str::from_utf8(&digits).unwrap();
    let mut out = String::new();
    if (-5..=21).contains(&dot) {
        if dot <= 0 {
            out.push_str("0.");
            for _ in 0..(-dot) {
                out.push('0');
            }
            out.push_str(ds);
        } else if dot >= declen {
            out.push_str(ds);
            for _ in 0..(dot - declen) {
                out.push('0');
            }
        } else {
            out.push_str(&ds[..dot as usize]);
            out.push('.');
            out.push_str(&ds[dot as usize..]);
        }
    } else {
        out.push_str(&ds[..1]);
        if declen > 1 {
            out.push('.');
            out.push_str(&ds[1..]);
        }
        push_exp(&mut out, exp, false);
    }
    out
}

pub fn fmt_number(v: f64, d: Dialect) -> String {
    if v.is_nan() {
        return "nan".to_string();
    }
    if v.is_infinite() {
        return if v > 0.0 { "inf".to_string() } else { "-inf".to_string() };
    }
    let b51 = fmt_g_abs(v.abs(), 14, false, false);
    let bluau = fmt_shortest_abs(v.abs());
    if b51 != bluau {
        super::note_dialect_event(0);
    }
    let body = match d {
        Dialect::Lua51 => b51,
        Dialect::Luau => bluau,
    };
    if v.is_sign_negative() {
        format!("-{}", body)
    } else {
        body
    }
}

// ------------------------------------------------------------------ string -> number

fn is_c_space(b: u8) -> bool {
    matches!(b, b' ' | b'\t' | b'\n' | 0x0b | 0x0c | b'\r')
}

/// The `tonumber` / arithmetic coercion rule: optional blanks, optional sign, decimal digits
/// with optional fraction and exponent or a `0x` hex integer, trailing blanks only.
pub fn str_to_number(s: &[u8], _d: Dialect) -> Option<f64> {
    let mut i = 0;
    while i < s.len() && is_c_space(s[i]) {
        i += 1;
    }
    let mut neg = false;
    if i < s.len() && (s[i] == b'+' || s[i] == b'-') {
        neg = s[i] == b'-';
        i += 1;
    }
    let v: f64;
    if i + 1 < s.len() && s[i] == b'0' && (s[i + 1] == b'x' || s[i + 1] == b'X') {
        i += 2;
        let start = i;
        let mut acc = 0f64;
        while i < s.len() && s[i].is_ascii_hexdigit() {
            acc = acc * 16.0 + (s[i] as char).to_digit(16).unwrap() as f64;
            i += 1;
        }
        if i == start {
            return None;
        }
        v = acc;
    } else {
        let start = i;
        let mut nd = 0;
        while i < s.len() && s[i].is_ascii_digit() {
            i += 1;
            nd += 1;
        }
        if i < s.len() && s[i] == b'.' {
            i += 1;
            while i < s.len() && s[i].is_ascii_digit() {
                i += 1;
                nd += 1;
            }
        }
        if nd == 0 {
            return None;
        }
        if i < s.len() && (s[i] == b'e' || s[i] == b'E') {
            let mut j = i + 1;
            if j < s.len() && (s[j] == b'+' || s[j] == b'-') {
                j += 1;
            }
            let ds = j;
            while j < s.len() && s[j].is_ascii_digit() {
                j += 1;
            }
            if j > ds {
                i = j;
            }
            // otherwise strtod stops before the 'e', which then is trailing garbage
        }
        let text = std::str::from_utf8(&s[start..i]).ok()?;
        v = text.parse::<f64>().ok()?;
    }
    while i < s.len() && is_c_space(s[i]) {
        i += 1;
    }
    if i != s.len() {
        return None;
    }
    Some(if neg { -v } else { v })
}

/// `tonumber(s, base)` for 2 <= base <= 36: blanks, optional '-', digits, blanks
pub fn str_to_number_base(s: &[u8], base: u32) -> Option<f64> {
    let mut i = 0;
    while i < s.len() && is_c_space(s[i]) {
        i += 1;
    }
    let mut neg = false;
    if i < s.len() && (s[i] == b'-' || s[i] == b'+') {
        neg = s[i] == b'-';
        i += 1;
    }
    let start = i;
    let mut acc = 0f64;
    while i < s.len() {
        match (s[i] as char).to_digit(36) {
            Some(d) if d < base => {
                acc = acc * base as f64 + d as f64;
                i += 1;
            }
            _ => break,
        }
    }
    if i == start {
        return None;
    }
    while i < s.len() && is_c_space(s[i]) {
        i += 1;
    }
    if i != s.len() {
        return None;
    }
    Some(if neg { -acc } else { acc })
}

// ------------------------------------------------------------------ printf

#[derive(Clone, Debug, Default)]
pub struct Spec {
    pub minus: bool,
    pub plus: bool,
    pub space: bool,
    pub alt: bool,
    pub zero: bool,
    pub width: usize,
    pub prec: Option<usize>,
}

fn pad(body: Vec<u8>, sp: &Spec, zero_ok: bool, sign_len: usize) -> Vec<u8> {
    if body.len() >= sp.width {
        return body;
    }
    let n = sp.width - body.len();
    let mut out = Vec::with_capacity(sp.width);
    if sp.minus {
        out.extend_from_slice(&body);
        out.extend(std::iter::repeat(b' ').take(n));
    } else if sp.zero && zero_ok {
        out.extend_from_slice(&body[..sign_len]);
        out.extend(std::iter::repeat(b'0').take(n));
        out.extend_from_slice(&body[sign_len..]);
    } else {
        out.extend(std::iter::repeat(b' ').take(n));
        out.extend_from_slice(&body);
    }
    out
}

fn sign_prefix(neg: bool, sp: &Spec) -> &'static str {
    if neg {
        "-"
    } else if sp.plus {
        "+"
    } else if sp.space {
        " "
    } else {
        ""
    }
}

pub fn printf_int(v: i64, sp: &Spec) -> Vec<u8> {
    let neg = v < 0;
    let mut digits = v.unsigned_abs().to_string();
    if let Some(p) = sp.prec {
        if p == 0 && v == 0 {
            digits.clear();
        }
        while digits.len() < p {
            digits.insert(0, '0');
        }
    }
    let sign = sign_prefix(neg, sp);
    let body = format!("{}{}", sign, digits).into_bytes();
    pad(body, sp, sp.prec.is_none(), sign.len())
}

pub fn printf_uint(v: u64, conv: u8, sp: &Spec) -> Vec<u8> {
    let mut digits = match conv {
        b'x' => format!("{:x}", v),
        b'X' => format!("{:X}", v),
        b'o' => format!("{:o}", v),
        _ => v.to_string(),
    };
    if let Some(p) = sp.prec {
        if p == 0 && v == 0 {
            digits.clear();
        }
        while digits.len() < p {
            digits.insert(0, '0');
        }
    }
    let mut prefix = "";
    if sp.alt && v != 0 {
        prefix = match conv {
            b'x' => "0x",
            b'X' => "0X",
            _ => "",
        };
    }
    if sp.alt && conv == b'o' && !digits.starts_with('0') {
        digits.insert(0, '0');
    }
    let body = format!("{}{}", prefix, digits).into_bytes();
    pad(body, sp, sp.prec.is_none(), prefix.len())
}

pub fn printf_float(v: f64, conv: u8, sp: &Spec) -> Vec<u8> {
    let upper = conv.is_ascii_uppercase();
    let neg = v.is_sign_negative() && !v.is_nan();
    let sign = sign_prefix(neg, sp);
    if !v.is_finite() {
        let word = if v.is_nan() { "nan" } else { "inf" };
        let word = if upper { word.to_uppercase() } else { word.to_string() };
        let body = format!("{}{}", sign, word).into_bytes();
        return pad(body, sp, false, 0);
    }
    let a = v.abs();
    let p = sp.prec.unwrap_or(6);
    let text = match conv.to_ascii_lowercase() {
        b'e' => fmt_e_abs(a, p, sp.alt, upper),
        b'f' => fmt_f_abs(a, p, sp.alt),
        _ => fmt_g_abs(a, p, sp.alt, upper),
    };
    let body = format!("{}{}", sign, text).into_bytes();
    pad(body, sp, true, sign.len())
}

pub fn printf_str(s: &[u8], sp: &Spec) -> Vec<u8> {
    let body = match sp.prec {
        Some(p) if p < s.len() => s[..p].to_vec(),
        _ => s.to_vec(),
    };
    pad(body, sp, false, 0)
}

/// parses the part of a conversion specification after `%`: returns the spec, the conversion
/// character and the number of bytes consumed (including the conversion character)
pub fn parse_spec(f: &[u8]) -> Result<(Spec, u8, usize), String> {
    let mut sp = Spec::default();
    let mut i = 0;
    let mut nflags = 0;
    while i < f.len() && matches!(f[i], b'-' | b'+' | b' ' | b'#' | b'0') {
        match f[i] {
            b'-' => sp.minus = true,
            b'+' => sp.plus = true,
            b' ' => sp.space = true,
            b'#' => sp.alt = true,
            _ => sp.zero = true,
        }
        i += 1;
        nflags += 1;
        if nflags > 5 {
            return Err("invalid format (repeated flags)".to_string());
        }
    }
    let ws = i;
    while i < f.len() && f[i].is_ascii_digit() {
        sp.width = sp.width * 10 + (f[i] - b'0') as usize;
        i += 1;
    }
    if i - ws > 2 {
        return Err("invalid format (width too long)".to_string());
    }
    if i < f.len() && f[i] == b'.' {
        i += 1;
        let ps = i;
        let mut p = 0usize;
        while i < f.len() && f[i].is_ascii_digit() {
            p = p * 10 + (f[i] - b'0') as usize;
            i += 1;
        }
        if i - ps > 2 {
            return Err("invalid format (precision too long)".to_string());
        }
        sp.prec = Some(p);
    }
    if i >= f.len() {
        return Err("invalid format string to 'format'".to_string());
    }
    Ok((sp, f[i], i + 1))
}
