//! Conformance corpus written as Lua source text (needs `luasyn::parse`).
//!
//! Expected behaviour is written compactly: events as `name(arg,arg)` separated by blanks,
//! then ` => r1,r2` for the returned values, ` !class` for an error, ` !steps` for an exhausted
//! budget.  Number snapshots are re-rendered with Rust's shortest `{}` formatting.

use super::*;
use crate::luasyn::{parse, Mode};

/// re-renders `d.ddddddddddddddddde[-]x` number snapshots compactly, leaves strings alone
fn compact(s: &str) -> String {
    let b = s.as_bytes();
    let mut out = String::new();
    let mut i = 0;
    while i < b.len() {
        if b[i] == b'"' {
            let st = i;
            i += 1;
            while i < b.len() && b[i] != b'"' {
                if b[i] == b'\\' {
                    i += 1;
                }
                i += 1;
            }
            i += 1;
            out.push_str(&s[st..i.min(b.len())]);
            continue;
        }
        let st = i;
        let mut j = i;
        if j < b.len() && b[j] == b'-' {
            j += 1;
        }
        if j + 1 < b.len() && b[j].is_ascii_digit() && b[j + 1] == b'.' {
            let mut k = j + 2;
            while k < b.len() && b[k].is_ascii_digit() {
                k += 1;
            }
            if k - (j + 2) == 17 && k < b.len() && b[k] == b'e' {
                k += 1;
                if k < b.len() && b[k] == b'-' {
                    k += 1;
                }
                while k < b.len() && b[k].is_ascii_digit() {
                    k += 1;
                }
                let v: f64 = s[st..k].parse().unwrap();
                if v == 0.0 && v.is_sign_negative() {
                    out.push_str("-0");
                } else {
                    out.push_str(&format!("{}", v));
                }
                i = k;
                continue;
            }
        }
        out.push(b[i] as char);
        i += 1;
    }
    out
}

fn show(o: &Outcome) -> String {
    let (trace, tail) = match o {
        Outcome::Done { trace, ret } => (trace, format!("=> {}", ret.iter().map(|r| compact(r)).collect::<Vec<_>>().join(","))),
        Outcome::Error { trace, class } => (trace, format!("!{}", compact(class))),
        Outcome::OutOfSteps { trace } => (trace, "!steps".to_string()),
    };
    let mut parts: Vec<String> = trace
        .iter()
        .map(|e| format!("{}({})", e.name, e.args.iter().map(|a| compact(a)).collect::<Vec<_>>().join(",")))
        .collect();
    parts.push(tail);
    parts.join(" ").trim_end().to_string()
}

fn run_text(src: &str, d: Dialect) -> String {
    let mode = match d {
        Dialect::Lua51 => Mode::Lua51,
        Dialect::Luau => Mode::Luau,
    };
    let parsed = match parse(src, mode) {
        Ok(p) => p,
        Err(e) => panic!("parse error in test program ({:?}): {:?}\n{}", d, e, src),
    };
    let cfg = Config { dialect: d, ..Config::default() };
    show(&run_isolated(&parsed.block, &cfg))
}

#[track_caller]
fn lua51(src: &str, want: &str) {
    assert_eq!(run_text(src, Dialect::Lua51), want.trim_end(), "\n[lua51] {}", src);
}

#[track_caller]
fn luau(src: &str, want: &str) {
    assert_eq!(run_text(src, Dialect::Luau), want.trim_end(), "\n[luau] {}", src);
}

#[track_caller]
fn both(src: &str, want: &str) {
    lua51(src, want);
    luau(src, want);
}

mod core;
mod lib;
mod meta;
mod luau_ext;
mod extra;
