//! Unit tests that need no parser: formatting tables, coercion, and programs built as ASTs.

use super::*;
use crate::luasyn::ast::*;

// ------------------------------------------------------------------ tiny AST builders

fn n(v: f64) -> Expr {
    Expr::num(v)
}
fn s(v: &str) -> Expr {
    Expr::str(v.as_bytes().to_vec())
}
fn nm(v: &str) -> Expr {
    Expr::name(v)
}
fn call(f: Expr, args: Vec<Expr>) -> Expr {
    Expr::call(f, args)
}
fn bin(op: BinOp, a: Expr, b: Expr) -> Expr {
    Expr::Binary(op, Box::new(a), Box::new(b))
}
fn field(o: Expr, name: &str) -> Expr {
    Expr::Field { obj: Box::new(o), name: name.to_string() }
}
fn emit(args: Vec<Expr>) -> Stmt {
    Stmt::Call(call(nm("emit"), args))
}
fn local(names: &[&str], values: Vec<Expr>) -> Stmt {
    Stmt::Local { is_const: false, names: names.iter().map(|x| Binding::new(*x)).collect(), values }
}
fn assign(t: Expr, v: Expr) -> Stmt {
    Stmt::Assign { targets: vec![t], values: vec![v] }
}
fn fbody(params: &[&str], vararg: bool, stmts: Vec<Stmt>) -> FuncBody {
    FuncBody {
        generics: None,
        params: params.iter().map(|x| Binding::new(*x)).collect(),
        vararg,
        vararg_ty: None,
        ret_ty: None,
        body: Block::new(stmts),
    }
}
fn func(params: &[&str], vararg: bool, stmts: Vec<Stmt>) -> Expr {
    Expr::Function { attrs: vec![], func: Box::new(fbody(params, vararg, stmts)) }
}
fn ret(v: Vec<Expr>) -> Stmt {
    Stmt::Return(v)
}

fn cfg(d: Dialect) -> Config {
    Config { dialect: d, ..Config::default() }
}

fn go(stmts: Vec<Stmt>, d: Dialect) -> Outcome {
    run_isolated(&Block::new(stmts), &cfg(d))
}

fn num_snap(v: f64) -> String {
    format!("{:.17e}", v)
}

fn ev(name: &str, args: &[String]) -> Event {
    Event { name: name.to_string(), args: args.to_vec() }
}

// ------------------------------------------------------------------ number formatting

#[test]
fn fmt_lua51_table() {
    let d = Dialect::Lua51;
    let cases: &[(f64, &str)] = &[
        (0.1, "0.1"),
        (1e15, "1e+15"),
        (1e14, "1e+14"),
        (99999999999999.0, "99999999999999"),
        (123456789012345.0, "1.2345678901234e+14"),
        (9007199254740992.0, "9.007199254741e+15"),
        (1e100, "1e+100"),
        (1.0 / 3.0, "0.33333333333333"),
        (-0.0, "-0"),
        (0.0, "0"),
        (1e-5, "1e-05"),
        (0.0001, "0.0001"),
        (5e-324, "4.9406564584125e-324"),
        (1.0, "1"),
        (-1.5, "-1.5"),
        (100.0, "100"),
        (3.14159265358979, "3.1415926535898"),
        (1e300 * 1e10, "inf"),
        (-1e300 * 1e10, "-inf"),
        (123456.789, "123456.789"),
        (2.5e-7, "2.5e-07"),
        (1234567890123456789.0, "1.2345678901235e+18"),
        (0.1 + 0.2, "0.3"),
        (255.0, "255"),
        (1e21, "1e+21"),
    ];
    for (v, want) in cases {
        assert_eq!(fmt_number(*v, d), *want, "%.14g of {:e}", v);
    }
    assert_eq!(fmt_number(f64::NAN, d), "nan");
    assert_eq!(fmt_number(-f64::NAN, d), "nan");
}

#[test]
fn fmt_luau_table() {
    let d = Dialect::Luau;
    let cases: &[(f64, &str)] = &[
        (0.1, "0.1"),
        (1e21, "1e+21"),
        (1e20, "100000000000000000000"),
        (1e-5, "0.00001"),
        (1e-7, "1e-07"),
        (1.5e-7, "1.5e-07"),
        (9007199254740992.0, "9007199254740992"),
        (123456789012345678.0, "123456789012345680"),
        (-0.0, "-0"),
        (0.0, "0"),
        (1.0, "1"),
        (-1.5, "-1.5"),
        (1e100, "1e+100"),
        (1.0 / 3.0, "0.3333333333333333"),
        (0.1 + 0.2, "0.30000000000000004"),
        (5e-324, "5e-324"),
        (123456.789, "123456.789"),
        (1e15, "1000000000000000"),
        (1.7976931348623157e308, "1.7976931348623157e+308"),
        (12.0, "12"),
        (120.0, "120"),
        (0.012, "0.012"),
    ];
    for (v, want) in cases {
        assert_eq!(fmt_number(*v, d), *want, "shortest of {:e}", v);
    }
    assert_eq!(fmt_number(f64::INFINITY, d), "inf");
    assert_eq!(fmt_number(f64::NEG_INFINITY, d), "-inf");
    assert_eq!(fmt_number(f64::NAN, d), "nan");
}

#[test]
fn formats_agree_on_small_integers_and_short_fractions() {
    for i in -2000..2000 {
        let v = i as f64;
        assert_eq!(fmt_number(v, Dialect::Lua51), fmt_number(v, Dialect::Luau));
        assert_eq!(fmt_number(v, Dialect::Lua51), format!("{}", i));
        let q = i as f64 / 8.0;
        assert_eq!(fmt_number(q, Dialect::Lua51), fmt_number(q, Dialect::Luau), "{}", q);
    }
    for v in [99999999999999.0, -99999999999999.0, 4294967296.0, 1099511627776.0] {
        assert_eq!(fmt_number(v, Dialect::Lua51), fmt_number(v, Dialect::Luau));
    }
}

#[test]
fn luau_format_round_trips() {
    let mut x: u64 = 0x9E3779B97F4A7C15;
    for _ in 0..20000 {
        x ^= x << 13;
        x ^= x >> 7;
        x ^= x << 17;
        let v = f64::from_bits(x);
        if !v.is_finite() {
            continue;
        }
        let text = fmt_number(v, Dialect::Luau);
        let back: f64 = text.parse().unwrap();
        assert_eq!(back.to_bits(), v.to_bits(), "{}", text);
        // and %.14g is within 14 digits
        let t51 = fmt_number(v, Dialect::Lua51);
        let b51: f64 = t51.parse().unwrap();
        assert!(((b51 - v) / v).abs() < 1e-13 || v == 0.0, "{} vs {:e}", t51, v);
    }
}

// ------------------------------------------------------------------ string -> number

#[test]
fn str_to_number_table() {
    let d = Dialect::Lua51;
    let yes: &[(&str, f64)] = &[
        ("10", 10.0),
        (" 10 ", 10.0),
        ("\t\n10\r\n", 10.0),
        ("0x10", 16.0),
        ("0X1f", 31.0),
        ("-0x10", -16.0),
        ("1e2", 100.0),
        ("1E+2", 100.0),
        ("1e-2", 0.01),
        (".5", 0.5),
        ("5.", 5.0),
        ("-.5", -0.5),
        ("+7", 7.0),
        ("0.1", 0.1),
        ("1e400", f64::INFINITY),
        ("007", 7.0),
    ];
    for (text, want) in yes {
        assert_eq!(str_to_number(text.as_bytes(), d), Some(*want), "{:?}", text);
        assert_eq!(str_to_number(text.as_bytes(), Dialect::Luau), Some(*want), "{:?}", text);
    }
    let no = [
        "", " ", "1 2", "abc", "1e", "1e+", "0x", "inf", "nan", "infinity", "-inf", "1_000", "0b11", "1.2.3", "--1", "- 1",
        ".", "e5", "10a", "0x1g", "1,5", "\u{a0}1",
    ];
    for text in no {
        assert_eq!(str_to_number(text.as_bytes(), d), None, "{:?}", text);
    }
    assert_eq!(str_to_number(b"-0", d).map(|v| v.is_sign_negative()), Some(true));
    assert_eq!(str_to_number(b"1\0", d), None);
}

// ------------------------------------------------------------------ programs as ASTs

#[test]
fn emit_arithmetic() {
    let out = go(vec![emit(vec![bin(BinOp::Add, n(1.0), n(2.0)), s("x")])], Dialect::Lua51);
    assert_eq!(
        out,
        Outcome::Done { trace: vec![ev("emit", &[num_snap(3.0), "\"x\"".to_string()])], ret: vec![] }
    );
}

#[test]
fn closures_capture_per_iteration() {
    // local fs = {} ; for i = 1, 3 do fs[i] = function() return i end end ; emit(fs[1](), fs[2](), fs[3]())
    let body = vec![assign(
        Expr::Index { obj: Box::new(nm("fs")), key: Box::new(nm("i")) },
        func(&[], false, vec![ret(vec![nm("i")])]),
    )];
    let idx = |k: f64| call(Expr::Index { obj: Box::new(nm("fs")), key: Box::new(n(k)) }, vec![]);
    let prog = vec![
        local(&["fs"], vec![Expr::Table(vec![])]),
        Stmt::NumFor { var: Binding::new("i"), start: n(1.0), limit: n(3.0), step: None, body: Block::new(body) },
        emit(vec![idx(1.0), idx(2.0), idx(3.0)]),
    ];
    for d in [Dialect::Lua51, Dialect::Luau] {
        assert_eq!(
            go(prog.clone(), d),
            Outcome::Done { trace: vec![ev("emit", &[num_snap(1.0), num_snap(2.0), num_snap(3.0)])], ret: vec![] }
        );
    }
}

#[test]
fn shared_upvalue() {
    // local c = 0; local function inc() c = c + 1 end; local function get() return c end; inc(); inc(); return get()
    let prog = vec![
        local(&["c"], vec![n(0.0)]),
        Stmt::LocalFunction {
            attrs: vec![],
            is_const: false,
            name: "inc".into(),
            func: fbody(&[], false, vec![assign(nm("c"), bin(BinOp::Add, nm("c"), n(1.0)))]),
        },
        Stmt::LocalFunction { attrs: vec![], is_const: false, name: "get".into(), func: fbody(&[], false, vec![ret(vec![nm("c")])]) },
        Stmt::Call(call(nm("inc"), vec![])),
        Stmt::Call(call(nm("inc"), vec![])),
        ret(vec![call(nm("get"), vec![])]),
    ];
    assert_eq!(go(prog, Dialect::Luau), Outcome::Done { trace: vec![], ret: vec![num_snap(2.0)] });
}

#[test]
fn step_budget_and_stack() {
    let spin = vec![
        emit(vec![n(1.0)]),
        Stmt::While { cond: Expr::True, body: Block::new(vec![]) },
        emit(vec![n(2.0)]),
    ];
    assert_eq!(go(spin, Dialect::Lua51), Outcome::OutOfSteps { trace: vec![ev("emit", &[num_snap(1.0)])] });

    // local function f() return 1 + f() end  f()
    let rec = vec![
        Stmt::LocalFunction {
            attrs: vec![],
            is_const: false,
            name: "f".into(),
            func: fbody(&[], false, vec![ret(vec![bin(BinOp::Add, n(1.0), call(nm("f"), vec![]))])]),
        },
        Stmt::Call(call(nm("f"), vec![])),
    ];
    assert_eq!(go(rec.clone(), Dialect::Lua51), Outcome::Error { trace: vec![], class: "stack".into() });

    // pcall cannot catch running out of steps, but catches the stack error
    let caught = vec![
        rec[0].clone(),
        emit(vec![call(nm("pcall"), vec![nm("f")])]),
        Stmt::Call(call(nm("pcall"), vec![func(&[], false, vec![Stmt::While { cond: Expr::True, body: Block::new(vec![]) }])])),
        emit(vec![s("unreachable")]),
    ];
    assert_eq!(
        go(caught, Dialect::Luau),
        Outcome::OutOfSteps { trace: vec![ev("emit", &["false".to_string(), "\"stack overflow\"".to_string()])] }
    );
}

#[test]
fn error_classes() {
    let user = vec![Stmt::Call(call(nm("error"), vec![Expr::Table(vec![TableItem::Named("code".into(), n(7.0))])]))];
    assert_eq!(
        go(user, Dialect::Lua51),
        Outcome::Error { trace: vec![], class: format!("user:{{\"code\"={}}}", num_snap(7.0)) }
    );
    let runtime = vec![Stmt::Call(call(nm("undefined_function"), vec![]))];
    assert_eq!(go(runtime, Dialect::Lua51), Outcome::Error { trace: vec![], class: "runtime".into() });
    let asserted = vec![Stmt::Call(call(nm("assert"), vec![Expr::False]))];
    assert_eq!(go(asserted, Dialect::Lua51), Outcome::Error { trace: vec![], class: "user:\"assertion failed!\"".into() });
    let mut c = cfg(Dialect::Luau);
    c.assert_passthrough = true;
    let pass = Block::new(vec![ret(vec![call(nm("assert"), vec![Expr::False, s("m")])])]);
    assert_eq!(run_isolated(&pass, &c), Outcome::Done { trace: vec![], ret: vec!["false".into(), "\"m\"".into()] });
}

#[test]
fn snapshot_shapes() {
    // local t = {1, x = "a\n"}; t.self = t; setmetatable(t, {}); emit(t, -0, 0/0, emit)
    let prog = vec![
        local(&["t"], vec![Expr::Table(vec![TableItem::Pos(n(1.0)), TableItem::Named("x".into(), s("a\n\"q\""))])]),
        assign(field(nm("t"), "me"), nm("t")),
        assign(field(nm("t"), "inner"), Expr::Table(vec![TableItem::Pos(nm("t"))])),
        Stmt::Call(call(nm("setmetatable"), vec![nm("t"), Expr::Table(vec![])])),
        emit(vec![nm("t"), Expr::Unary(UnOp::Neg, Box::new(n(0.0))), bin(BinOp::Div, n(0.0), n(0.0)), nm("emit")]),
    ];
    let one = num_snap(1.0);
    let want = format!("{{{one}={one},\"x\"=\"a\\x0A\\\"q\\\"\",\"me\"=<cycle 0>,\"inner\"={{{one}=<cycle 0>}}}}@mt");
    assert_eq!(
        go(prog, Dialect::Luau),
        Outcome::Done { trace: vec![ev("emit", &[want, num_snap(-0.0), "nan".into(), "<fn>".into()])], ret: vec![] }
    );
    assert_ne!(num_snap(-0.0), num_snap(0.0));
}

#[test]
fn probes() {
    let prog = vec![ret(vec![
        Expr::Paren(Box::new(call(nm("probe"), vec![n(1.0), n(2.0)]))),
        call(nm("probe0"), vec![n(1.0)]),
        call(nm("probe1"), vec![]),
        call(nm("probet"), vec![]),
        call(nm("probe2"), vec![s("a"), s("b")]),
    ])];
    let out = go(prog, Dialect::Lua51);
    let Outcome::Done { trace, ret } = out else { panic!("{:?}", out) };
    assert_eq!(trace.iter().map(|e| e.name.as_str()).collect::<Vec<_>>(), ["probe", "probe0", "probe1", "probet", "probe2"]);
    assert_eq!(
        ret,
        vec![
            num_snap(1.0),
            "nil".to_string(),
            "nil".to_string(),
            format!("{{{}={},{}={},\"x\"={}}}", num_snap(1.0), num_snap(10.0), num_snap(2.0), num_snap(20.0), num_snap(1.0)),
            "\"a\"".to_string(),
            num_snap(7.0)
        ]
    );
}

#[test]
fn loud_globals() {
    // return a + 1, a == b, a.x, tostring(a), #a, a < b, -a, a .. "s", a()
    let prog = Block::new(vec![
        Stmt::Local {
            is_const: false,
            names: vec![Binding::new("r1"), Binding::new("r2")],
            values: vec![bin(BinOp::Add, nm("a"), n(1.0)), bin(BinOp::Eq, nm("a"), nm("b"))],
        },
        Stmt::Local { is_const: false, names: vec![Binding::new("r3")], values: vec![field(nm("a"), "x")] },
        assign(field(nm("a"), "y"), n(1.0)),
        ret(vec![
            bin(BinOp::Eq, nm("r1"), nm("a")),
            nm("r2"),
            call(nm("tostring"), vec![nm("a")]),
            bin(BinOp::Lt, nm("a"), nm("b")),
            bin(BinOp::Concat, s("s"), nm("a")),
            Expr::Unary(UnOp::Len, Box::new(nm("b"))),
            call(nm("a"), vec![]),
            bin(BinOp::Eq, nm("a"), nm("a")),
        ]),
    ]);
    let out = run_with_loud_globals_isolated(&prog, &cfg(Dialect::Luau), &["a".to_string(), "b".to_string()]);
    let Outcome::Done { trace, ret } = out else { panic!("{:?}", out) };
    let names: Vec<&str> = trace.iter().map(|e| e.name.as_str()).collect();
    assert_eq!(
        names,
        ["meta:__add", "meta:__eq", "meta:__index", "meta:__newindex", "meta:__tostring", "meta:__lt", "meta:__concat", "meta:__len", "meta:__call"]
    );
    assert!(trace.iter().all(|e| e.args.is_empty()));
    assert_eq!(ret[0], "true");
    assert_eq!(ret[1], "true");
    assert_eq!(ret[2], "\"loud\"");
    assert_eq!(ret[3], "true");
    assert_eq!(ret[4], "{}@mt");
    assert_eq!(ret[7], "true");
}

struct Host {
    lib: std::rc::Rc<Block>,
    bad: std::rc::Rc<Block>,
    log: Vec<(String, String)>,
}

impl RequireHost for Host {
    fn require(&mut self, arg: &[u8], from: &str) -> RequireAction {
        self.log.push((String::from_utf8_lossy(arg).to_string(), from.to_string()));
        match arg {
            b"./lib" | b"./lib.lua" => RequireAction::Module { cache_key: "lib".into(), chunk_name: "lib.lua".into(), block: self.lib.clone() },
            b"./bad" => RequireAction::Module { cache_key: "bad".into(), chunk_name: "bad.lua".into(), block: self.bad.clone() },
            b"./data" => RequireAction::Value(PresetValue::Object(vec![("k".into(), PresetValue::Array(vec![PresetValue::Num(1.0), PresetValue::Str(b"z".to_vec())]))])),
            b"@ext/thing" => RequireAction::External,
            _ => RequireAction::Fail("nope".into()),
        }
    }
}

#[test]
fn require_host() {
    // lib: emit("loading"); local n = 0; return { bump = function() n = n + 1; return n end, sub = require("./data") }
    let lib = Block::new(vec![
        emit(vec![s("loading")]),
        local(&["n"], vec![n(0.0)]),
        ret(vec![Expr::Table(vec![
            TableItem::Named(
                "bump".into(),
                func(&[], false, vec![assign(nm("n"), bin(BinOp::Add, nm("n"), n(1.0))), ret(vec![nm("n")])]),
            ),
            TableItem::Named("sub".into(), call(nm("require"), vec![s("./data")])),
        ])]),
    ]);
    let bad = Block::new(vec![ret(vec![n(1.0), n(2.0)])]);
    let mut host = Host { lib: std::rc::Rc::new(lib), bad: std::rc::Rc::new(bad), log: vec![] };
    let main = Block::new(vec![
        local(&["a"], vec![call(nm("require"), vec![s("./lib")])]),
        local(&["b"], vec![call(nm("require"), vec![s("./lib.lua")])]),
        emit(vec![bin(BinOp::Eq, nm("a"), nm("b")), call(field(nm("a"), "bump"), vec![]), call(field(nm("b"), "bump"), vec![])]),
        emit(vec![field(nm("a"), "sub")]),
        emit(vec![call(nm("require"), vec![s("@ext/thing")])]),
        emit(vec![call(nm("pcall"), vec![nm("require"), s("./bad")])]),
        Stmt::Call(call(nm("require"), vec![s("./missing")])),
    ]);
    let out = run_with_require_isolated(&main, &cfg(Dialect::Luau), &mut host, "main.lua");
    let Outcome::Error { trace, class } = out else { panic!("{:?}", out) };
    assert_eq!(class, "require");
    let one = num_snap(1.0);
    let two = num_snap(2.0);
    assert_eq!(
        trace,
        vec![
            ev("emit", &["\"loading\"".into()]),
            ev("emit", &["true".into(), one.clone(), two.clone()]),
            ev("emit", &[format!("{{\"k\"={{{one}={one},{two}=\"z\"}}}}")]),
            ev("require", &["\"@ext/thing\"".into()]),
            ev("emit", &["\"<ext:@ext/thing>\"".into()]),
            ev("emit", &["false".into(), "\"<require error>\"".into()]),
        ]
    );
    assert_eq!(host.log[0], ("./lib".to_string(), "main.lua".to_string()));
    assert_eq!(host.log[1], ("./data".to_string(), "lib.lua".to_string()));
    assert_eq!(host.log[2], ("./lib.lua".to_string(), "main.lua".to_string()));
    // without a host `require` is a nil global
    let no = Block::new(vec![ret(vec![call(nm("type"), vec![nm("require")])])]);
    assert_eq!(run_isolated(&no, &cfg(Dialect::Luau)), Outcome::Done { trace: vec![], ret: vec!["\"nil\"".into()] });
}

#[test]
fn presets_and_extra_hosts() {
    let mut c = cfg(Dialect::Lua51);
    c.preset_globals = vec![("DEBUG".into(), PresetValue::Bool(true)), ("CONF".into(), PresetValue::Array(vec![PresetValue::Nil, PresetValue::Num(2.0)]))];
    c.extra_hosts = vec!["spy".into()];
    let prog = Block::new(vec![ret(vec![
        nm("DEBUG"),
        field(nm("_G"), "DEBUG"),
        Expr::Index { obj: Box::new(nm("CONF")), key: Box::new(n(2.0)) },
        call(nm("spy"), vec![n(1.0), n(2.0)]),
    ])]);
    assert_eq!(
        run_isolated(&prog, &c),
        Outcome::Done {
            trace: vec![ev("spy", &[num_snap(1.0), num_snap(2.0)])],
            ret: vec!["true".into(), "true".into(), num_snap(2.0), num_snap(1.0), num_snap(2.0)]
        }
    );
}

#[test]
fn deep_expression_nesting_is_an_error_not_a_crash() {
    let mut e = n(1.0);
    for _ in 0..100_000 {
        e = Expr::Paren(Box::new(e));
    }
    let prog = Block::new(vec![ret(vec![e])]);
    let out = run_isolated(&prog, &cfg(Dialect::Lua51));
    assert_eq!(out, Outcome::Error { trace: vec![], class: "stack".into() });
    // dropping a 100k-deep Box chain recurses too: leak it
    std::mem::forget(prog);
}

#[test]
fn floor_division_is_luau_only() {
    let prog = vec![ret(vec![bin(BinOp::IDiv, n(7.0), n(2.0))])];
    assert_eq!(go(prog.clone(), Dialect::Lua51), Outcome::Error { trace: vec![], class: "runtime".into() });
    assert_eq!(go(prog, Dialect::Luau), Outcome::Done { trace: vec![], ret: vec![num_snap(3.0)] });
}

#[test]
fn require_from_chunk_follows_the_defining_chunk() {
    // lib: return function() return require("./data") end      -- called from main, resolves from lib
    let lib = Block::new(vec![ret(vec![func(&[], false, vec![ret(vec![call(nm("require"), vec![s("./data")])])])])]);
    let mut host = Host { lib: std::rc::Rc::new(lib), bad: std::rc::Rc::new(Block::new(vec![])), log: vec![] };
    let main = Block::new(vec![
        local(&["f"], vec![call(nm("require"), vec![s("./lib")])]),
        local(&["d"], vec![call(nm("f"), vec![])]),
        ret(vec![call(nm("type"), vec![nm("d")]), call(nm("pcall"), vec![nm("require"), s("./bad")])]),
    ]);
    let out = run_with_require_isolated(&main, &cfg(Dialect::Lua51), &mut host, "main.lua");
    assert_eq!(out, Outcome::Done { trace: vec![], ret: vec!["\"table\"".into(), "false".into(), "\"<require error>\"".into()] });
    assert_eq!(host.log[1], ("./data".to_string(), "lib.lua".to_string()));
    assert_eq!(host.log[2], ("./bad".to_string(), "main.lua".to_string()));
}

#[test]
fn run_debug_reports_the_message() {
    let (out, msg) = run_debug(&Block::new(vec![Stmt::Call(call(nm("nope"), vec![]))]), &cfg(Dialect::Lua51));
    assert_eq!(out, Outcome::Error { trace: vec![], class: "runtime".into() });
    assert_eq!(msg.as_deref(), Some("attempt to call a nil value"));
}
