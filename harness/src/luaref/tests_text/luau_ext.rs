//! Luau-only syntax: compound assignment, continue, if-expressions, interpolation, types

use super::*;

#[test]
fn compound_assignment() {
    luau(
        "local t = {a = {b = {1, 2}}}
         local function k() emit('k') return 2 end
         local function v() emit('v') return 5 end
         t.a.b[k()] += v() emit(t.a.b[2])",
        "emit(\"k\") emit(\"v\") emit(7) =>",
    );
    luau("local x = 1 x += 2 x *= 3 x -= 1 x /= 2 emit(x) x ^= 2 emit(x) x %= 5 emit(x) x //= 2 emit(x)", "emit(4) emit(16) emit(1) emit(0) =>");
    luau("local s = 'a' s ..= 'b' s ..= 1 emit(s) G = 1 G += 1 emit(G, _G.G)", "emit(\"ab1\") emit(2,2) =>");
    // the target's prefix and key are evaluated once, before the right-hand side
    luau(
        "local function o(tag, v) emit(tag) return v end
         local t = {x = {y = 1}}
         o('prefix', t).x[o('key', 'y')] += o('rhs', 10) emit(t.x.y)",
        "emit(\"prefix\") emit(\"key\") emit(\"rhs\") emit(11) =>",
    );
    luau(
        "local reads = 0
         local obj = setmetatable({}, {__index = function(t, k) reads += 1 return 10 end, __newindex = function(t, k, v) emit('set', k, v) end})
         obj.n += 1 emit(reads)",
        "emit(\"set\",\"n\",11) emit(1) =>",
    );
    luau("local function two() return 1, 2 end local x = 10 x += two() emit(x)", "emit(11) =>");
    luau("local v = setmetatable({}, {__add = function(a, b) return 'added' end}) v += 1 emit(v)", "emit(\"added\") =>");
    luau("local up = 0 local function f() up += 1 end f() f() emit(up)", "emit(2) =>");
    luau("local x x += 1", "!runtime");
}

#[test]
fn continue_statement() {
    luau("for i = 1, 5 do if i % 2 == 0 then continue end emit(i) end", "emit(1) emit(3) emit(5) =>");
    luau("local i = 0 while i < 5 do i += 1 if i % 2 == 1 then continue end emit(i) end", "emit(2) emit(4) =>");
    luau("for k, v in ipairs({'a', 'b', 'c'}) do if v == 'b' then continue end emit(k, v) end", "emit(1,\"a\") emit(3,\"c\") =>");
    luau("local n = 0 repeat n += 1 if n % 2 == 1 then continue end emit(n) until n >= 4", "emit(2) emit(4) =>");
    // the condition of repeat-until reads a local of the body, also after `continue`
    luau("local k = 0 repeat k += 1 local stop = k >= 3 if k == 1 then continue end emit(k) until stop", "emit(2) emit(3) =>");
    luau("for i = 1, 2 do for j = 1, 3 do if j == 2 then continue end emit(i, j) end end", "emit(1,1) emit(1,3) emit(2,1) emit(2,3) =>");
    luau("for i = 1, 3 do do if i == 2 then continue end end emit(i) end", "emit(1) emit(3) =>");
    luau("local fs = {} for i = 1, 3 do if i == 2 then continue end fs[#fs + 1] = function() return i end end emit(fs[1](), fs[2]())", "emit(1,3) =>");
    // `continue` is an ordinary identifier elsewhere
    luau("local continue = 5 emit(continue)", "emit(5) =>");
}

#[test]
fn if_expressions() {
    luau("local x = 5 emit(if x > 3 then 'big' else 'small', if x > 10 then 1 elseif x > 4 then 2 else 3)", "emit(\"big\",2) =>");
    luau("local function two() return 1, 2 end emit(if true then two() else 0) emit((if false then 0 else two()))", "emit(1) emit(1) =>");
    luau("local function o(t) emit(t) return t end local r = if o(false) then o('a') elseif o(nil) then o('b') else o('c') emit(r)", "emit(false) emit(nil) emit(\"c\") emit(\"c\") =>");
    luau("emit(if nil then 1 else if false then 2 else 3, (if 0 then 'zero-truthy' else 'no') .. '!')", "emit(3,\"zero-truthy!\") =>");
    luau("local t = {if true then 1 else 2, k = if false then 1 else 2} emit(t)", "emit({1=1,\"k\"=2}) =>");
}

#[test]
fn interpolated_strings() {
    luau("local x = 5 emit(`a{x}b`, `{1}{2}`, `{'s'}`, `\\{{x}}`, `{nil} {true}`, `plain`, ``, `{1.5}|{-0}|{2^53}`)",
        "emit(\"a5b\",\"12\",\"s\",\"{5}\",\"nil true\",\"plain\",\"\",\"1.5|-0|9007199254740992\") =>");
    luau("local function two() return 1, 2 end emit(`{two()}`, `{ {1, 2} }`)", "emit(\"1\",\"table\") =>");
    luau("local function o(t) emit(t) return t end emit(`{o(1)}-{o(2)}`)", "emit(1) emit(2) emit(\"1-2\") =>");
    luau("emit(`{setmetatable({}, {__tostring = function() return 'T' end})}`, `{ {} }`, `{emit}`, `a\\nb{1}\\t`)", "emit(\"T\",\"table\",\"function\",\"a\\x0Ab1\\x09\") =>");
    luau("emit((`x{1}`):upper(), #`{10}{20}`)", "emit(\"X1\",4) =>");
}

#[test]
fn generalized_iteration() {
    luau("for k, v in {5, 6, z = 7} do emit(k, v) end", "emit(1,5) emit(2,6) emit(\"z\",7) =>");
    luau("local t = {a = 1} for k in t do emit(k) end for k, v in {} do emit('no') end", "emit(\"a\") =>");
    luau(
        "local obj = setmetatable({}, {__iter = function(self) emit('iter') return function(_, i) if i < 2 then return i + 1 end end, self, 0 end})
         for i in obj do emit(i) end",
        "emit(\"iter\") emit(1) emit(2) =>",
    );
    luau("local t = setmetatable({9}, {__index = function() return 1 end}) for k, v in t do emit(k, v) end", "emit(1,9) =>");
}

#[test]
fn type_syntax_has_no_runtime_effect() {
    luau(
        "type T = number
         export type U = {a: number, [string]: boolean}
         type F<A, B...> = (A, B...) -> (...A)
         local x: number = 1
         local function f<T>(a: T, ...: number): (T, number) return a, select('#', ...) end
         emit(f(1, 2, 3)) emit(f(1, 2, 3) :: number) emit((f(1) :: any))
         local y = (x :: any) + 1 emit(y)
         local g = function(a: number?, b: {number}): () end emit(g(1, {}))
         for i: number = 1, 1 do emit(i) end
         for k: number, v: string in ipairs({'s'}) do emit(k, v) end",
        "emit(1,2) emit(1) emit(1) emit(2) emit() emit(1) emit(1,\"s\") =>",
    );
    luau("local function two() return 1, 2 end local t = {two() :: number} emit(#t) return two() :: any", "emit(1) => 1");
    luau("local type = 5 emit(type) local export = 6 emit(export)", "emit(5) emit(6) =>");
    luau("local x = 1 emit(typeof(x)) type Y = typeof(x)", "emit(\"number\") =>");
}

#[test]
fn numbers_and_escapes() {
    luau("emit(0b101, 0xFF, 1_000_000, 0x_ff, 1e2, 0B11, 3_0.5)", "emit(5,255,1000000,255,100,3,30.5) =>");
    luau("emit('\\x41\\u{48}\\u{20AC}', 'a\\z   b', '\\65\\066\\0067')", "emit(\"AH\\xE2\\x82\\xAC\",\"ab\",\"AB\\x067\") =>");
    both("emit('\\65\\n\\t\\\\\\'\\\"', \"q'\", [[raw\\n]], [==[a]]b]==], '\\0' == '\\000', #'\\0')", "emit(\"A\\x0A\\x09\\\\'\\\"\",\"q'\",\"raw\\\\n\",\"a]]b\",true,1) =>");
    both("emit([[\nfirst newline dropped]], 0xA, 1e-2, .5, 5., 3e+2)", "emit(\"first newline dropped\",10,0.01,0.5,5,300) =>");
}
