//! larger tables, remaining syntax, resource limits

use super::*;

#[test]
fn big_tables_keep_insertion_order() {
    both(
        "local t = {} for i = 1, 200 do t['k' .. i] = i end
         local n, ok = 0, true for k, v in pairs(t) do n = n + 1 if k ~= 'k' .. n or v ~= n then ok = false end end emit(n, ok)
         for i = 1, 200, 2 do t['k' .. i] = nil end
         n = 0 local sum = 0 for k, v in pairs(t) do n = n + 1 sum = sum + v end emit(n, sum)
         for i = 1, 150 do t['n' .. i] = -i end
         local first = next(t) local last for k in pairs(t) do last = k end emit(first, last, t.k2, t.k1, t.n150)
         local seq = {} for i = 1, 1000 do seq[i] = i end emit(#seq, seq[1000], seq[1001]) for i = 1000, 501, -1 do seq[i] = nil end emit(#seq)
         local m = {} for i = 1, 50 do m[i * 1.5] = i m[-i] = i m[i % 2 == 0] = i end emit(m[3], m[-50], m[true], m[false], m[75])",
        "emit(200,true) emit(100,10100) emit(\"k2\",\"n150\",2,nil,-150) emit(1000,1000,nil) emit(500) emit(2,50,50,49,50) =>",
    );
    both("local t = {} for i = 1, 20 do t[i] = i end for k, v in pairs(t) do t[k] = nil end emit(next(t)) t.x = 1 emit(next(t))", "emit(nil) emit(\"x\",1) =>");
}

#[test]
fn remaining_luau_syntax() {
    luau("local function id<T>(x: T): T return x end emit(id<<number>>(5), (id<<string>>)('s'))", "emit(5,\"s\") =>");
    luau("@native local function f() return 1 end @native function g() return 2 end emit(f(), g()) local h = @native function() return 3 end emit(h())", "emit(1,2) emit(3) =>");
    luau("@[native] local function f() return 1 end emit(f())", "emit(1) =>");
    luau("type function tf(t) return t end emit('after')", "emit(\"after\") =>");
    luau("export type function tf(t) return t end emit('after')", "emit(\"after\") =>");
    luau("const x = 1 const function f() return x + 1 end emit(x, f())", "emit(1,2) =>");
}

#[test]
fn limits() {
    both("local function d(n) if n == 0 then return 0 end return 1 + d(n - 1) end emit(d(150))", "emit(150) =>");
    both("local function d(n) if n == 0 then return 0 end return 1 + d(n - 1) end emit(d(170))", "!stack");
    both("emit(#string.rep('x', 1e6)) emit(pcall(string.rep, 'x', 1e9))", "emit(1000000) !steps");
    both("emit(select('#', unpack({}, 1, 7000))) emit(pcall(unpack, {}, 1, 9000))", "emit(7000) emit(false,\"<runtime error>\") =>");
    both("local s = string.rep('k', 100000) local t = {} while true do t[s] = 1 end", "!steps");
    both("local q = {} for i = 1, 20000 do q[i] = i end for i = 1, 20000 do q[i] = nil end local n = 0 for i = 1, 20000 do if next(q) == nil then n = n + 1 end end emit(n)", "emit(20000) =>");
    both("local t = {} t.t = t local u = {} for i = 1, 60 do u = {u} end emit(t) emit(#tostring(u))", "emit({\"t\"=<cycle 0>}) emit(5) =>");
    // a DAG that would print as 2^40 nodes is cut off deterministically
    for d in [Dialect::Lua51, Dialect::Luau] {
        let out = run_text("local t = {} for i = 1, 40 do t = {t, t} end emit(1) emit(t) emit(2)", d);
        assert!(out.starts_with("emit(1) emit({1={1={") && out.ends_with(" emit(2) =>") && out.contains("<big>"), "{}", &out[..200]);
        assert!(out.len() < 600_000);
    }
}

#[test]
fn expression_depth() {
    let mut src = String::from("return 1");
    for _ in 0..900 {
        src.push_str(" + 1");
    }
    both(&src, "=> 901");
    let src = format!("return {}1{}", "(".repeat(150), ")".repeat(150));
    both(&src, "=> 1");
}
