//! larger tables, remaining syntax, resource limits

use super::*;

#[test]
fn big_tables_keep_insertion_order() {
    both(
        "local t = {} for i = 1, 200 do t['k' .. i] = i end
         local n, ok = 0, true for k, v in pairs(t) do n = n + 1 if k ~= 'k' .. n or v ~= n then ok = false end end emit(n, ok)
         for i = 1, 200, 2 do t['k' .. i] = nil end
         n = 0 local sum = 0 for k, v in pairs(t) do n = n + 1 sum = sum + v end emit(n, sum)
         for i = 1, 150 do t['n' .. i] = -i end
         local first = next(t) local last for k in pairs(t) do last = k end emit(first, last, t.k2, t.k1, t.n150)
         local seq = {} for i = 1, 1000 do seq[i] = i end emit(#seq, seq[1000], seq[1001]) for i = 1000, 501, -1 do seq[i] = nil end emit(#seq)
         local m = {} for i = 1, 50 do m[i * 1.5] = i m[-i] = i m[i % 2 == 0] = i end emit(m[3], m[-50], m[true], m[false], m[75])",
        "emit(200,true) emit(100,10100) emit(\"k2\",\"n150\",2,nil,-150) emit(1000,1000,nil) emit(500) emit(2,50,50,49,50) =>",
    );
    both("local t = {} for i = 1, 20 do t[i] = i end for k, v in pairs(t) do t[k] = nil end emit(next(t)) t.x = 1 emit(next(t))", "emit(nil) emit(\"x\",1) =>");
}

#[test]
fn remaining_luau_syntax() {
    luau("local function id<T>(x: T): T return x end emit(id<<number>>(5), (id<<string>>)('s'))", "emit(5,\"s\") =>");
    luau("@native local function f() return 1 end @native function g() return 2 end emit(f(), g()) local h = @native function() return 3 end emit(h())", "emit(1,2) emit(3) =>");
    luau("@[native] local function f() return 1 end emit(f())", "emit(1) =>");
    luau("type function tf(t) return t end emit('after')", "emit(\"after\") =>");
    luau("export type function tf(t) return t end emit('after')", "emit(\"after\") =>");
    luau("const x = 1 const function f() return x + 1 end emit(x, f())", "emit(1,2) =>");
}

#[test]
fn limits() {
    both("local function d(n) if n == 0 then return 0 end return 1 + d(n - 1) end emit(d(150))", "emit(150) =>");
    both("local function d(n) if n == 0 then return 0 end return 1 + d(n - 1) end emit(d(170))", "!stack");
    both("emit(#string.rep('x', 1e6)) emit(pcall(string.rep, 'x', 1e9))", "emit(1000000) !steps");
    both("emit(select('#', unpack({}, 1, 7000))) emit(pcall(unpack, {}, 1, 9000))", "emit(7000) emit(false,\"<runtime error>\") =>");
    both("local s = string.rep('k', 100000) local t = {} while true do t[s] = 1 end", "!steps");
    both("local q = {} for i = 1, 20000 do q[i] = i end for i = 1, 20000 do q[i] = nil end local n = 0 for i = 1, 20000 do if next(q) == nil then n = n + 1 end end emit(n)", "emit(20000) =>");
    both("local t = {} t.t = t local u = {} for i = 1, 60 do u = {u} end emit(t) emit(#tostring(u))", "emit({\"t\"=<cycle 0>}) emit(5) =>");
    // a DAG that would print as 2^40 nodes is cut off deterministically
    for d in [Dialect::Lua51, Dialect::Luau] {
        let out = run_text("local t = {} for i = 1, 40 do t = {t, t} end emit(1) emit(t) emit(2)", d);
        assert!(out.starts_with("emit(1) emit({1={1={") && out.ends_with(" emit(2) =>") && out.contains("<big>"), "{}", &out[..200]);
        assert!(out.len() < 600_000);
    }
}

#[test]
fn expression_depth() {
    let mut src = String::from("return 1");
    for _ in 0..900 {
        src.push_str(" + 1");
    }
    both(&src, "=> 901");
    let src = format!("return {}1{}", "(".repeat(150), ")".repeat(150));
    both(&src, "=> 1");
}

fn loud(src: &str, names: &[&str]) -> String {
    let parsed = parse(src, Mode::Luau).unwrap();
    let cfg = Config { dialect: Dialect::Luau, ..Config::default() };
    let names: Vec<String> = names.iter().map(|s| s.to_string()).collect();
    show(&run_with_loud_globals_isolated(&parsed.block, &cfg, &names))
}

#[test]
fn loud_values_report_every_metamethod() {
    assert_eq!(
        loud("local _ = a + 1, 1 - a, a * a, a / 2, a % 2, a ^ 2, a // 2, -a, a .. 'x', #a", &["a"]),
        "meta:__add() meta:__sub() meta:__mul() meta:__div() meta:__mod() meta:__pow() meta:__idiv() meta:__unm() meta:__concat() meta:__len() =>"
    );
    assert_eq!(
        loud("local _ = a == b, a ~= b, a < b, a <= b, a > 1, 1 >= a, a == a, a == 1, a == nil", &["a", "b"]),
        "meta:__eq() meta:__eq() meta:__lt() meta:__le() meta:__lt() meta:__le() =>"
    );
    assert_eq!(loud("local _ = a.x, a[1] a.y = 1 a() a:m() local s = tostring(a) .. `{a}`", &["a"]),
        "meta:__index() meta:__index() meta:__newindex() meta:__call() meta:__index() meta:__call() meta:__tostring() meta:__tostring() =>");
    // things that must stay silent
    assert_eq!(loud("local x = a local y = a and b or nil local t = {a, k = b} local z = not a local w = rawequal(a, b) local v = type(a) return a == a, rawget(a, 'x')", &["a", "b"]), "=> true,nil");
    // results chain: the result of a loud operation is loud again
    assert_eq!(loud("local _ = (a + 1).x.y", &["a"]), "meta:__add() meta:__index() meta:__index() =>");
    assert_eq!(loud("return b", &["a"]), "=> nil");
    assert_eq!(loud("for k, v in a do break end", &["a"]), "meta:__call() =>");
}

#[test]
fn misc_runtime_rules() {
    both("emit(pcall(function() for i = 1, 10, 0 do end end))", "emit(false,\"<runtime error>\") =>");
    both("local t = setmetatable({}, {__index = function(t, k) return k * 2 end}) emit(t[21], #t)", "emit(42,0) =>");
    both("local a = {} local b = a a.x = 1 emit(b.x, a == b, {} == {})", "emit(1,true,false) =>");
    both("local function f(t) t.x = 2 end local t = {x = 1} f(t) emit(t.x)", "emit(2) =>");
    both("local s = 'abc' local u = s emit(s == u, s == 'ab' .. 'c', #s)", "emit(true,true,3) =>");
    both("emit(10 == '10', 0 == false, nil == false, '' == 0)", "emit(false,false,false,false) =>");
    both("local t = {} t[1] = 1 t[2] = 2 t[4] = 4 emit(t[3], t[4])", "emit(nil,4) =>");
    both("emit(1 < 2, 2 < 1, 1 <= 1, 1 >= 2, 0/0 < 1, 0/0 >= 1, 'a' ~= 'a')", "emit(true,false,true,false,false,false,false) =>");
    both("emit(2^53 + 1 == 2^53, 0.1 + 0.2 == 0.3, 1e308 * 10, -1e308 * 10, 2^-1074 > 0, 2^-1075 == 0)", "emit(true,false,inf,-inf,true,true) =>");
    both("emit(math.floor(-0.5), math.ceil(-0.5), 3 % -0, 0 * -1 == 0)", "emit(-1,-0,nan,true) =>");
}
