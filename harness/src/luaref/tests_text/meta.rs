//! metatables and method calls

use super::*;

const VEC: &str = "
local V = {} V.__index = V
function V.new(x) return setmetatable({x = x}, V) end
function V:get() return self.x end
local function val(a) if type(a) == 'table' then return a.x end return a end
V.__add = function(a, b) emit('add', type(a), type(b)) return V.new(val(a) + val(b)) end
V.__sub = function(a, b) return V.new(val(a) - val(b)) end
V.__mul = function(a, b) return V.new(val(a) * val(b)) end
V.__div = function(a, b) return V.new(val(a) / val(b)) end
V.__mod = function(a, b) return V.new(val(a) % val(b)) end
V.__pow = function(a, b) return V.new(val(a) ^ val(b)) end
V.__unm = function(a, b) emit('unm', rawequal(a, b)) return V.new(-a.x) end
V.__eq = function(a, b) emit('eq') return a.x == b.x end
V.__lt = function(a, b) emit('lt', val(a), val(b)) return val(a) < val(b) end
V.__le = function(a, b) emit('le', val(a), val(b)) return val(a) <= val(b) end
V.__concat = function(a, b) return 'cat:' .. tostring(val(a)) .. ':' .. tostring(val(b)) end
V.__call = function(self, a, b) return self.x + a + (b or 0), 'extra' end
V.__tostring = function(a) return 'V(' .. a.x .. ')' end
V.__len = function(a) return 42 end
";

fn vec(src: &str) -> String {
    format!("{}{}", VEC, src)
}

#[test]
fn arithmetic_metamethods() {
    both(
        &vec("emit((V.new(1) + V.new(2)).x) emit((V.new(1) + 5).x) emit((5 + V.new(1)).x) emit((V.new(1) + '7').x)
              emit((V.new(7) - 2).x, (V.new(7) * 2).x, (V.new(7) / 2).x, (V.new(7) % 4).x, (V.new(2) ^ 5).x, (2 ^ V.new(3)).x)"),
        "emit(\"add\",\"table\",\"table\") emit(3) emit(\"add\",\"table\",\"number\") emit(6) emit(\"add\",\"number\",\"table\") emit(6) \
         emit(\"add\",\"table\",\"string\") emit(8) emit(5,14,3.5,3,32,8) =>",
    );
    both(&vec("emit((-V.new(3)).x)"), "emit(\"unm\",true) emit(-3) =>");
    both(&vec("emit(pcall(function() return V.new(1) + nil end))"), "emit(\"add\",\"table\",\"nil\") emit(false,\"<runtime error>\") =>");
    luau(
        "local I = setmetatable({}, {__idiv = function(a, b) return 'idiv' end}) emit(I // 2, 2 // I)",
        "emit(\"idiv\",\"idiv\") =>",
    );
    // the left operand's handler wins
    both(
        "local A = setmetatable({}, {__add = function() return 'A' end})
         local B = setmetatable({}, {__add = function() return 'B' end})
         emit(A + B, B + A, A + 1, 1 + B)",
        "emit(\"A\",\"B\",\"A\",\"B\") =>",
    );
    // only the first result of a metamethod is used
    both("local M = setmetatable({}, {__add = function() return 1, 2, 3 end}) emit(M + M)", "emit(1) =>");
}

#[test]
fn comparison_metamethods() {
    both(
        &vec("emit(V.new(1) < V.new(2)) emit(V.new(1) > V.new(2)) emit(V.new(1) <= V.new(1)) emit(V.new(2) >= V.new(3))"),
        "emit(\"lt\",1,2) emit(true) emit(\"lt\",2,1) emit(false) emit(\"le\",1,1) emit(true) emit(\"le\",3,2) emit(false) =>",
    );
    both(
        &vec("local a, b = V.new(1), V.new(1) emit(a == b) emit(a ~= b) emit(a == a) emit(a == 1) emit(a == V.new(2))"),
        "emit(\"eq\") emit(true) emit(\"eq\") emit(false) emit(true) emit(false) emit(\"eq\") emit(false) =>",
    );
    // __eq needs the very same handler on both sides; results are converted to booleans
    both(
        "local eq = function() return 1 end
         local a = setmetatable({}, {__eq = eq}) local b = setmetatable({}, {__eq = eq}) local c = setmetatable({}, {__eq = function() return true end})
         emit(a == b, a == c, a ~= b, a == {}, {} == a, c == a)",
        "emit(true,false,false,false,false,false) =>",
    );
    both("local L = setmetatable({}, {__lt = function() return nil end, __le = function() return 0 end}) emit(L < L, L <= L, L > L, L >= L)", "emit(false,true,false,true) =>");
    both("emit(pcall(function() return setmetatable({}, {}) < setmetatable({}, {}) end))", "emit(false,\"<runtime error>\") =>");
}

#[test]
fn concat_call_len_tostring() {
    both(
        &vec("emit(V.new(1) .. 'x', 'x' .. V.new(1), 1 .. V.new(2), V.new(1) .. V.new(2), 'a' .. 'b' .. V.new(3))"),
        "emit(\"cat:1:x\",\"cat:x:1\",\"cat:1:2\",\"cat:1:2\",\"acat:b:3\") =>",
    );
    both(
        "local cc = setmetatable({}, {__concat = function(l, r) return type(l) .. type(r) end})
         emit(1 .. cc, cc .. 's', cc .. cc, 'a' .. 'b' .. cc)",
        "emit(\"numbertable\",\"tablestring\",\"tabletable\",\"astringtable\") =>",
    );
    both(&vec("local v = V.new(10) emit(v(1, 2)) emit(v(1)) emit((v(1, 2))) emit(pcall(v, 5))"), "emit(13,\"extra\") emit(11,\"extra\") emit(13) emit(true,15,\"extra\") =>");
    both("emit(pcall(function() return ({})() end)) emit(pcall(setmetatable({}, {__call = 5})))", "emit(false,\"<runtime error>\") emit(false,\"<runtime error>\") =>");
    both(&vec("emit(tostring(V.new(5)), string.format('%s|%5s', V.new(1), 'r'))"), "emit(\"V(5)\",\"V(1)|    r\") =>");
    luau(&vec("emit(`v={V.new(5)}!`, `{V.new(1)}{V.new(2)}`)"), "emit(\"v=V(5)!\",\"V(1)V(2)\") =>");
    both(&vec("emit(#V.new(1), rawlen(V.new(1)))"), "emit(42,0) =>");
    // emit / print snapshot the raw value, they do not call __tostring
    both(&vec("emit(V.new(5)) print(V.new(6))"), "emit({\"x\"=5}@mt) print({\"x\"=6}@mt) =>");
    both("local t = setmetatable({}, {__tostring = function() return 7 end}) emit(tostring(t))", "emit(7) =>");
    both("local t = setmetatable({}, {__tostring = function() return {} end}) emit(pcall(string.format, '%s', t))", "emit(false,\"<runtime error>\") =>");
}

#[test]
fn index_and_newindex() {
    both(
        "local A = {foo = 'A.foo'} local B = setmetatable({bar = 'B.bar'}, {__index = A}) local c = setmetatable({}, {__index = B})
         emit(c.foo, c.bar, c.baz, rawget(c, 'foo'))
         local d = setmetatable({}, {__index = function(t, k) return k .. '!' end}) emit(d.x, d[1], rawget(d, 'x'))
         local e = setmetatable({own = 1}, {__index = function(t, k) emit('miss', k) return nil end}) emit(e.own, e.other)",
        "emit(\"A.foo\",\"B.bar\",nil,nil) emit(\"x!\",\"1!\",nil) emit(\"miss\",\"other\") emit(1,nil) =>",
    );
    both(
        "local log = setmetatable({}, {__newindex = function(t, k, v) rawset(t, k, v * 2) end}) log.a = 1 emit(log.a) log.a = 5 emit(log.a)
         local store = {} local p = setmetatable({}, {__newindex = store}) p.x = 1 emit(rawget(p, 'x'), store.x)
         local chain = setmetatable({}, {__newindex = p}) chain.y = 2 emit(rawget(chain, 'y'), rawget(p, 'y'), store.y)
         local ro = setmetatable({}, {__newindex = function(t, k) error('readonly ' .. k, 0) end}) emit(pcall(function() ro.z = 1 end))",
        "emit(2) emit(5) emit(nil,1) emit(nil,nil,2) emit(false,\"readonly z\") =>",
    );
    // __index on a string goes to the string table; a missing method is nil, calling it an error
    both("emit(('x').upper == string.upper, pcall(function() return ('x'):nope() end))", "emit(true,false,\"<runtime error>\") =>");
    // metamethods are looked up raw in the metatable
    both("local mt = setmetatable({}, {__index = function() return function() return 'sneaky' end end}) local t = setmetatable({}, mt) emit(pcall(function() return t + 1 end))", "emit(false,\"<runtime error>\") =>");
    // proxies
    both(
        "local real = {} local reads, writes = 0, 0
         local proxy = setmetatable({}, {__index = function(_, k) reads = reads + 1 return real[k] end, __newindex = function(_, k, v) writes = writes + 1 real[k] = v end})
         proxy.a = 1 proxy.a = 2 local x = proxy.a + proxy.a emit(x, reads, writes, next(proxy))",
        "emit(4,2,2,nil) =>",
    );
}

#[test]
fn method_calls() {
    both(
        "local obj = {n = 0}
         function obj:inc(d) self.n = self.n + (d or 1) return self end
         local function get() emit('get') return obj end
         get():inc():inc(5) emit(obj.n)
         local t = {a = {b = {}}}
         function t.a.b:m(x) return self == t.a.b, x end
         emit(t.a.b:m(3))
         function t.a.f(x) return x end emit(t.a.f(1))
         function t.g(...) return select('#', ...) end emit(t.g(1, 2), t:g(1, 2))
         local s = {v = 'S', name = function(self, a) return self.v .. a end} emit(s:name('x'), s.name(s, 'y'), s.name({v = 'T'}, 'z'))",
        "emit(\"get\") emit(6) emit(true,3) emit(1) emit(2,3) emit(\"Sx\",\"Sy\",\"Tz\") =>",
    );
    both(
        "local Account = {} Account.__index = Account
         function Account.new(b) return setmetatable({balance = b}, Account) end
         function Account:deposit(v) self.balance = self.balance + v end
         local Special = setmetatable({}, {__index = Account}) Special.__index = Special
         function Special.new(b) local o = Account.new(b) return setmetatable(o, Special) end
         function Special:deposit(v) Account.deposit(self, v * 2) end
         local a, s = Account.new(10), Special.new(10) a:deposit(5) s:deposit(5) emit(a.balance, s.balance)",
        "emit(15,20) =>",
    );
    both("local t = {} emit(pcall(function() t:nomethod() end)) emit(pcall(function() local n n:m() end))", "emit(false,\"<runtime error>\") emit(false,\"<runtime error>\") =>");
    // call sugar
    both("local function f(x) return type(x), x end emit(f'lit') emit(f[[long]]) emit(f{1}) local o = {m = function(self, x) return x end} emit(o:m'q', o:m{2})",
        "emit(\"string\",\"lit\") emit(\"string\",\"long\") emit(\"table\",{1=1}) emit(\"q\",{1=2}) =>");
}
