//! standard library subset

use super::*;

#[test]
fn tostring_basic() {
    both(
        "emit(tostring(nil), tostring(true), tostring(false), tostring(12), tostring(-0), tostring(1.5), tostring('s'), tostring({}), tostring(print), tostring(function() end))",
        "emit(\"nil\",\"true\",\"false\",\"12\",\"-0\",\"1.5\",\"s\",\"table\",\"function\",\"function\") =>",
    );
    both("emit(tostring(1e3), tostring(100), tostring(2^31), tostring(-7.25), tostring(1/0), tostring(-1/0), tostring(0/0))",
        "emit(\"1000\",\"100\",\"2147483648\",\"-7.25\",\"inf\",\"-inf\",\"nan\") =>");
    both("emit(pcall(tostring))", "emit(false,\"<runtime error>\") =>");
}

#[test]
fn tostring_numbers_lua51() {
    lua51(
        "emit(tostring(0.1), tostring(1e15), tostring(1e14), tostring(123456789012345), tostring(2^53), tostring(1e100), tostring(1/3), tostring(1e-5), tostring(5e-324))",
        "emit(\"0.1\",\"1e+15\",\"1e+14\",\"1.2345678901234e+14\",\"9.007199254741e+15\",\"1e+100\",\"0.33333333333333\",\"1e-05\",\"4.9406564584125e-324\") =>",
    );
    lua51("emit(0.1 + 0.2 .. '', 2^53 .. '', 1e15 .. 'x', 100000000000000 .. '', 3.14159265358979 .. '')",
        "emit(\"0.3\",\"9.007199254741e+15\",\"1e+15x\",\"1e+14\",\"3.1415926535898\") =>");
}

#[test]
fn tostring_numbers_luau() {
    luau(
        "emit(tostring(0.1), tostring(1e21), tostring(1e20), tostring(1e-5), tostring(1e-7), tostring(2^53), tostring(123456789012345678), tostring(1/3), tostring(5e-324), tostring(1e100))",
        "emit(\"0.1\",\"1e+21\",\"100000000000000000000\",\"0.00001\",\"1e-07\",\"9007199254740992\",\"123456789012345680\",\"0.3333333333333333\",\"5e-324\",\"1e+100\") =>",
    );
    luau("emit(0.1 + 0.2 .. '', 2^53 .. '', 1e15 .. 'x', `{1e15}`)", "emit(\"0.30000000000000004\",\"9007199254740992\",\"1000000000000000x\",\"1000000000000000\") =>");
}

#[test]
fn tonumber_cases() {
    both(
        "emit(tonumber('0x10'), tonumber(' 10 '), tonumber('1e2'), tonumber(''), tonumber('1 2'), tonumber('10'), tonumber('10', 2), tonumber('ff', 16), tonumber('zz', 36), tonumber('8', 8), tonumber(nil))",
        "emit(16,10,100,nil,nil,10,2,255,1295,nil,nil) =>",
    );
    both(
        "emit(tonumber(12), tonumber('  -7  '), tonumber('abc'), tonumber({}), tonumber('1e'), tonumber('7', 10), tonumber('-101', 2), tonumber('FF', 16), tonumber(' 11 ', 2), tonumber('1.5', 10), tonumber(true), tonumber('5.'), tonumber('.5'), tonumber('0x'), tonumber('-0x1F'))",
        "emit(12,-7,nil,nil,nil,7,-5,255,3,nil,nil,5,0.5,nil,-31) =>",
    );
    both("emit(pcall(tonumber)) emit(pcall(tonumber, '1', 99))", "emit(false,\"<runtime error>\") emit(false,\"<runtime error>\") =>");
    both("emit(tonumber('inf'), tonumber('nan'), tonumber('1_000'), tonumber('0b1'))", "emit(nil,nil,nil,nil) =>");
}

#[test]
fn raw_functions_and_metatable_access() {
    both(
        "local t = setmetatable({}, {__index = function() return 'dflt' end, __newindex = function() end})
         emit(t.x, rawget(t, 'x')) t.x = 1 emit(rawget(t, 'x')) rawset(t, 'x', 2) emit(t.x, rawget(t, 'x'))
         emit(rawequal(t, t), rawequal(t, {}), rawequal('a', 'a'), rawequal(1, 1.0), rawequal(nil, false))
         emit(rawlen({1, 2}), rawlen('abc'), rawset(t, 1, 1) == t)",
        "emit(\"dflt\",nil) emit(nil) emit(2,2) emit(true,false,true,true,false) emit(2,3,true) =>",
    );
    both(
        "local mt = {} local t = {} emit(setmetatable(t, mt) == t, getmetatable(t) == mt, getmetatable({}), getmetatable(1), getmetatable(nil))
         setmetatable(t, nil) emit(getmetatable(t))
         emit(getmetatable('x').__index == string, getmetatable('x') == getmetatable('y'))
         local p = setmetatable({}, {__metatable = 'locked'}) emit(getmetatable(p), pcall(setmetatable, p, {}))
         emit(pcall(setmetatable, 1, {})) emit(pcall(setmetatable, {}, 1)) emit(pcall(setmetatable, {}))",
        "emit(true,true,nil,nil,nil) emit(nil) emit(true,true) emit(\"locked\",false,\"<runtime error>\") \
         emit(false,\"<runtime error>\") emit(false,\"<runtime error>\") emit(false,\"<runtime error>\") =>",
    );
}

#[test]
fn table_insert_remove() {
    both(
        "local t = {} table.insert(t, 'a') table.insert(t, 'c') table.insert(t, 2, 'b') table.insert(t, 1, 'z') emit(table.concat(t, ','))
         table.insert(t, #t + 1, 'end') emit(table.concat(t, ','))
         emit(table.remove(t)) emit(table.remove(t, 1)) emit(table.concat(t)) emit(#t)
         emit(table.remove(t, 2)) emit(t) emit(table.remove({})) emit(table.remove({}, 1)) emit(table.remove(t, 7))
         emit(table.insert(t, 'q'))",
        "emit(\"z,a,b,c\") emit(\"z,a,b,c,end\") emit(\"end\") emit(\"z\") emit(\"abc\") emit(3) emit(\"b\") emit({1=\"a\",2=\"c\"}) emit() emit() emit() emit() =>",
    );
    both("emit(pcall(table.insert, {}, 1, 2, 3)) emit(pcall(table.insert, {})) emit(pcall(table.insert, nil, 1))",
        "emit(false,\"<runtime error>\") emit(false,\"<runtime error>\") emit(false,\"<runtime error>\") =>");
    both("local q = {} for i = 1, 5 do table.insert(q, i * i) end local s = 0 while #q > 0 do s = s + table.remove(q, 1) end emit(s, #q)", "emit(55,0) =>");
}

#[test]
fn table_concat_unpack_pack() {
    both(
        "emit(table.concat({1, 2.5, 'x'}, '-'), table.concat({}, 'x'), table.concat({1, 2, 3}, ',', 2, 3), table.concat({'a'}), table.concat({1, 2, 3}, ',', 3, 2), table.concat({'a', 'b'}, 1))",
        "emit(\"1-2.5-x\",\"\",\"2,3\",\"a\",\"\",\"a1b\") =>",
    );
    both("emit(pcall(table.concat, {{}})) emit(pcall(table.concat, {1, nil, 3}, ',', 1, 3)) emit(pcall(table.concat, {true}))",
        "emit(false,\"<runtime error>\") emit(false,\"<runtime error>\") emit(false,\"<runtime error>\") =>");
    both(
        "emit(unpack({1, 2, 3})) emit(unpack({1, 2, 3}, 2)) emit(unpack({1, 2, 3}, 2, 3)) emit(table.unpack({1, 2})) emit(unpack({})) emit(unpack({1, 2}, 1, 3)) emit((unpack({1, 2})))
         local function f(a, b, c) return c, b, a end emit(f(unpack({1, 2, 3})))
         local p = table.pack(1, nil, 3) emit(p.n, p[1], p[2], p[3]) emit(table.pack().n)",
        "emit(1,2,3) emit(2,3) emit(2,3) emit(1,2) emit() emit(1,2,nil) emit(1) emit(3,2,1) emit(3,1,nil,3) emit(0) =>",
    );
    both("emit(pcall(unpack)) emit(pcall(unpack, {}, 1, 1e9))", "emit(false,\"<runtime error>\") emit(false,\"<runtime error>\") =>");
}

#[test]
fn ipairs_pairs_next() {
    both(
        "local f, s, c = ipairs({'a'}) emit(type(f), type(s), c) emit(f(s, c)) emit(f(s, 1))
         local g, s2, c2 = pairs({}) emit(g == next, type(s2), c2)
         emit(pcall(pairs)) emit(pcall(ipairs, nil))",
        "emit(\"function\",\"table\",0) emit(1,\"a\") emit(nil) emit(true,\"table\",nil) emit(false,\"<runtime error>\") emit(false,\"<runtime error>\") =>",
    );
    // ipairs and pairs do raw accesses
    both(
        "local t = setmetatable({1}, {__index = function(t, i) if i < 4 then return i end end})
         local n = 0 for i, v in ipairs(t) do n = n + 1 end emit(n)
         n = 0 for k in pairs(t) do n = n + 1 end emit(n)",
        "emit(1) emit(1) =>",
    );
}

#[test]
fn string_functions() {
    both(
        "emit(string.rep('ab', 3), string.rep('x', 0), string.rep('x', -1), string.rep('', 5), ('x'):rep(3), string.rep('ab', 2.9))
         emit(string.sub('hello', 2, 4), string.sub('hello', -3), string.sub('hello', 2), string.sub('hello', 0), string.sub('hello', 4, 2), string.sub('hello', -100, 100), ('hello'):sub(2, -2), ('hello'):sub(5, 5), ('hello'):sub(6), ('hello'):sub(-1, -1), ('hello'):sub(3, -10))
         emit(string.len('abc'), string.byte('A'), string.char(72, 105), string.upper('aBc1'), string.lower('aBc1'), string.reverse('abc'), string.char(), string.len(''))
         emit(string.byte('abc', 2), string.byte('abc', 10)) emit(string.byte('abc', 1, -1)) emit(string.byte('abc', -1)) emit(string.byte(''))",
        "emit(\"ababab\",\"\",\"\",\"\",\"xxx\",\"abab\") \
         emit(\"ell\",\"llo\",\"ello\",\"hello\",\"\",\"hello\",\"ell\",\"o\",\"\",\"o\",\"\") \
         emit(3,65,\"Hi\",\"ABC1\",\"abc1\",\"cba\",\"\",0) emit(98) emit(97,98,99) emit(99) emit() =>",
    );
    both(
        "emit(('abc'):upper(), ('Hello'):len(), #('abc'):rep(2), ('%d-%s'):format(5, 'x'), ('x').len, ('x')[1], ('x').nope)
         local s = 'hey' emit(s:byte(1, -1)) emit(s:sub(2):upper())
         emit(pcall(function() return (5):rep(1) end)) emit(pcall(string.rep)) emit(pcall(string.sub, {})) emit(string.len(12), (12 .. ''):len())",
        "emit(\"ABC\",5,6,\"5-x\",<fn>,nil,nil) emit(104,101,121) emit(\"EY\") \
         emit(false,\"<runtime error>\") emit(false,\"<runtime error>\") emit(false,\"<runtime error>\") emit(2,2) =>",
    );
}

#[test]
fn string_format() {
    both("emit(string.format('%d %5d %-5d| %05d %+d % d', 42, 42, 42, 42, 42, 42))", "emit(\"42    42 42   | 00042 +42  42\") =>");
    both("emit(string.format('%s %s %s %s', 1, 'a', nil, true), string.format('%5s|%-5s|%.2s', 'ab', 'ab', 'abcdef'), string.format('%5.1s|', 'abc'))",
        "emit(\"1 a nil true\",\"   ab|ab   |ab\",\"    a|\") =>");
    both("emit(string.format('%g %g %g %g %g %g', 1, 0.5, 1e20, 1e-5, 100000, 1000000))", "emit(\"1 0.5 1e+20 1e-05 100000 1e+06\") =>");
    both("emit(string.format('%f %.2f %.0f %5.1f %.0f %.0f', 1, 3.14159, 2.5, 2.25, 0.5, 1.5))", "emit(\"1.000000 3.14 2   2.2 0 2\") =>");
    both("emit(string.format('%x %X %#x %o %u', 255, 255, 255, 8, 7), string.format('%c%c', 72, 105), string.format('%%'), string.format('100%%'))",
        "emit(\"ff FF 0xff 10 7\",\"Hi\",\"%\",\"100%\") =>");
    both("emit(string.format('%d', 3.7), string.format('%d', -3.7), string.format('%i', 5), string.format('%d', '10'), string.format('%.3d', 5), string.format('%d', -0))",
        "emit(\"3\",\"-3\",\"5\",\"10\",\"005\",\"0\") =>");
    both("emit(string.format('%e', 12345.678), string.format('%10.3f|', 3.14159), string.format('%.3g', 1234.5), string.format('%.14g', 0.1), string.format('%.3e', 0), string.format('%E', 1e-10), string.format('%G', 1e-10))",
        "emit(\"1.234568e+04\",\"     3.142|\",\"1.23e+03\",\"0.1\",\"0.000e+00\",\"1.000000E-10\",\"1E-10\") =>");
    both("emit(string.format('%.14g', 2^53), string.format('%.17g', 0.1), string.format('%g', 1/0), string.format('%f', -1/0), string.format('%5.2f', 0/0) ~= nil, string.format('%.1f', 0.05), string.format('%.20f', 0.5), string.format('%g', -0))",
        "emit(\"9.007199254741e+15\",\"0.10000000000000001\",\"inf\",\"-inf\",true,\"0.1\",\"0.50000000000000000000\",\"-0\") =>");
    both("emit(string.format('%08.3f|%-8.2f|%+.1f', 3.14159, 2.5, 2), string.format('%#.0f %#g', 1, 1), string.format('[%3d][%-3d][%03d]', 1234, 1234, 1234))",
        "emit(\"0003.142|2.50    |+2.0\",\"1. 1.00000\",\"[1234][1234][1234]\") =>");
    both("emit(string.format('%s|%s', setmetatable({}, {__tostring = function() return 'OBJ' end}), {}), string.format('%10s|', 'é'), string.format('a\\0b%s', 'c'))",
        "emit(\"OBJ|table\",\"        \\xC3\\xA9|\",\"a\\x00bc\") =>");
    both("emit(pcall(string.format, '%d', 'x')) emit(pcall(string.format, '%d')) emit(pcall(string.format, '%y', 1)) emit(pcall(string.format, '%')) emit(pcall(string.format)) emit(string.format('none', 1, 2))",
        "emit(false,\"<runtime error>\") emit(false,\"<runtime error>\") emit(false,\"<runtime error>\") emit(false,\"<runtime error>\") emit(false,\"<runtime error>\") emit(\"none\") =>");
    luau("emit(string.format('%* %*', 1, 'x'), string.format('%*', {}), string.format('%*|%*', nil, 1.5), string.format('%*', setmetatable({}, {__tostring = function() return 'T' end})))",
        "emit(\"1 x\",\"table\",\"nil|1.5\",\"T\") =>");
    lua51("emit(pcall(string.format, '%*', 1))", "emit(false,\"<runtime error>\") =>");
    // %s and %* of numbers follow the dialect's tostring
    lua51("emit(string.format('%s', 2^53), string.format('%s', 0.1 + 0.2))", "emit(\"9.007199254741e+15\",\"0.3\") =>");
    luau("emit(string.format('%s', 2^53), string.format('%*', 0.1 + 0.2))", "emit(\"9007199254740992\",\"0.30000000000000004\") =>");
}

#[test]
fn math_functions() {
    both(
        "emit(math.floor(3.7), math.floor(-3.7), math.ceil(3.2), math.ceil(-3.2), math.sqrt(16), math.abs(-4), math.max(1, 5, 3), math.min(4, 2, 8), math.fmod(7, 3), math.fmod(-7, 3), math.huge, -math.huge, math.pow(2, 8), math.floor('3.5'))
         emit(math.modf(3.7)) emit(math.modf(-3.7)) emit(math.modf(5)) emit(math.modf(math.huge)) emit(math.pi, math.max(2), math.min(-0, 0), math.floor(-0), math.abs(-0), math.sqrt(2), math.fmod(5.5, 2), math.fmod(7, -3))",
        "emit(3,-4,4,-3,4,4,5,2,1,-1,inf,-inf,256,3) emit(3,0.7000000000000002) emit(-3,-0.7000000000000002) emit(5,0) emit(inf,0) \
         emit(3.141592653589793,2,-0,-0,0,1.4142135623730951,1.5,1) =>",
    );
    both("emit(pcall(math.floor, 'x')) emit(pcall(math.max)) emit(pcall(math.floor)) emit(pcall(math.floor, {}))",
        "emit(false,\"<runtime error>\") emit(false,\"<runtime error>\") emit(false,\"<runtime error>\") emit(false,\"<runtime error>\") =>");
    both("emit(math.floor(2^60) == 2^60, math.sqrt(-1) ~= math.sqrt(-1), math.fmod(1, 0) ~= math.fmod(1, 0))", "emit(true,true,true) =>");
}
