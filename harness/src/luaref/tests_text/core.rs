//! core language: values, truncation, closures, loops, assignment, errors, budget

use super::*;

#[test]
fn truncation_in_argument_lists() {
    both(
        "local function f() return 1, 2, 3 end
         local function z() end
         emit(f()) emit(f(), 10) emit(10, f()) emit((f())) emit(z()) emit(z(), 1) emit((z())) emit(f(), f())",
        "emit(1,2,3) emit(1,10) emit(10,1,2,3) emit(1) emit() emit(nil,1) emit(nil) emit(1,1,2,3) =>",
    );
}

#[test]
fn truncation_in_table_constructors() {
    both(
        "local function f() return 1, 2, 3 end
         local function z() end
         local t = {f()} emit(#t)
         t = {f(), f()} emit(#t)
         t = {f(), (f())} emit(#t)
         t = {(f())} emit(#t)
         t = {z()} emit(#t)
         t = {f(), x = 1} emit(#t, t.x)
         t = {x = 1, f()} emit(#t)
         t = {f(); 10} emit(#t, t[2])
         emit({f()})",
        "emit(3) emit(4) emit(2) emit(1) emit(0) emit(1,1) emit(3) emit(2,10) emit({1=1,2=2,3=3}) =>",
    );
}

#[test]
fn truncation_in_local_and_assignment() {
    both(
        "local function f() return 1, 2, 3 end
         local function z() end
         local a, b, c, d = f() emit(a, b, c, d)
         local e, g = f(), 10 emit(e, g)
         local h, i = z() emit(h, i)
         local j, k, l = 0, f() emit(j, k, l)
         local m, n = (f()) emit(m, n)
         a, b, c, d = f() emit(a, b, c, d)
         a, b = f(), 10 emit(a, b)
         a, b = 1 emit(a, b)
         a, b = 1, 2, probe(3) emit(a, b)",
        "emit(1,2,3,nil) emit(1,10) emit(nil,nil) emit(0,1,2) emit(1,nil) emit(1,2,3,nil) emit(1,10) emit(1,nil) probe(3) emit(1,2) =>",
    );
}

#[test]
fn truncation_in_return() {
    both("local function f() return 1, 2, 3 end return f()", "=> 1,2,3");
    both("local function f() return 1, 2, 3 end return f(), 1", "=> 1,1");
    both("local function f() return 1, 2, 3 end return (f())", "=> 1");
    both("local function f() return 1, 2, 3 end return 0, f()", "=> 0,1,2,3");
    both("local function z() end return z()", "=>");
    both("local function z() end return z(), z()", "=> nil");
    both("local function f() return 1, 2 end local function g() return f() end return g()", "=> 1,2");
    both("return", "=>");
    both("return nil", "=> nil");
    both("emit(1)", "emit(1) =>");
}

#[test]
fn select_and_varargs() {
    both(
        "local function c(...) return select('#', ...) end
         emit(c(), c(nil), c(nil, nil), c(1, nil))
         emit(select(2, 'a', 'b', 'c'))
         emit(select(-1, 'a', 'b', 'c'))
         emit((select(2, 'a', 'b', 'c')))
         emit(select(4, 'a', 'b', 'c'))
         local function v(...) local a, b = ... return a, b, ... end
         emit(v(1)) emit(v())
         local function w(...) local t = {...} return #t, ... end
         emit(w(7, 8))
         local function n(a, ...) return a, select('#', ...) end
         emit(n()) emit(n(1, 2, 3))
         local function pass(...) return c(...) end
         emit(pass(1, 2), pass())
         local function first(...) return (...) end
         emit(first(4, 5))
         local function g(...) return ... end
         emit(g(1, nil, 3)) emit((g(1, 2))) emit(g(), g())",
        "emit(0,1,2,2) emit(\"b\",\"c\") emit(\"c\") emit(\"b\") emit() emit(1,nil,1) emit(nil,nil) emit(2,7,8) \
         emit(nil,0) emit(1,2) emit(2,0) emit(4) emit(1,nil,3) emit(1) emit(nil) =>",
    );
    // the main chunk is a vararg function with no arguments
    both("emit(select('#', ...)) emit(...) emit({...}) return ...", "emit(0) emit() emit({}) =>");
    both("emit(pcall(select, 0, 1))", "emit(false,\"<runtime error>\") =>");
}

#[test]
fn and_or_not() {
    both(
        "emit(nil and 1, false and 1, 0 and 1, '' and 2)
         emit(nil or 1, false or nil, 0 or 1, false or false)
         emit(1 and nil or 3, nil and 1 or 3, 1 and 2 or 3)
         emit(not nil, not 0, not '', not false, not not nil)",
        "emit(nil,false,1,2) emit(1,nil,0,false) emit(3,3,2) emit(true,false,false,true,false) =>",
    );
    both(
        "local function f() emit('f') return true end
         emit(false and f()) emit(true or f()) emit(nil and f() or 'x') emit(true and f())",
        "emit(false) emit(true) emit(\"x\") emit(\"f\") emit(true) =>",
    );
    // and / or always yield exactly one value
    both(
        "local function m() return 1, 2 end
         local function z() end
         emit(true and m()) emit(m() or 5) emit(false or m()) emit(true and z()) emit(z() or z())",
        "emit(1) emit(1) emit(1) emit(nil) emit(nil) =>",
    );
}

#[test]
fn operator_precedence() {
    both(
        "emit(2^3^2, -2^2, 1 + 2 * 3 - 4 / 2, 1 .. 2 .. 3, 'a' .. 'b' == 'ab', not 1 == 2, 2 * 3 % 4, 1 < 2 == true, -3 ^ 2, 2 ^ -1)
         emit(1 + 1 .. 2, not nil and 1, 1 or false and nil, #'ab' + 1, -'2' + 1, 7 - 3 - 2, 2 ^ 2 * 3)",
        "emit(512,-4,5,\"123\",true,false,2,true,-9,0.5) emit(\"22\",1,1,3,-1,2,12) =>",
    );
}

#[test]
fn arithmetic() {
    both(
        "emit(7 % 3, -7 % 3, 7 % -3, -7 % -3, 5.5 % 2, -5.5 % 2, 3 % 1, 0 % 5)
         emit(1/0, -1/0, 0/0 ~= 0/0, -0 == 0, 10 / 2, 3 - -3, 2^10, 2^0.5, 1e15, 2^53, 7 / 2)
         emit(-0, 0 * -1, 0 / -5, 1 / (0 * -1))",
        "emit(1,2,-2,-1,1.5,0.5,0,0) emit(inf,-inf,true,true,5,6,1024,1.4142135623730951,1000000000000000,9007199254740992,3.5) \
         emit(-0,-0,-0,-inf) =>",
    );
    both("emit(5 % 0 ~= 5 % 0, 5.3 % 1 < 0.31)", "emit(true,true) =>");
    // the dialects differ with an infinite divisor: a - floor(a/b)*b is nan in 5.1
    lua51("emit(5 % math.huge, -5 % math.huge)", "emit(nan,nan) =>");
    luau("emit(5 % math.huge, -5 % -math.huge, -5 % math.huge, 5 % -math.huge)", "emit(5,-5,inf,-inf) =>");
    luau(
        "emit(7 // 2, -7 // 2, 7 // -2, -7 // -2, 7.5 // 2, 1 // 0, -1 // 0, 0 // 1, '7' // '2')",
        "emit(3,-4,-4,3,3,inf,-inf,0,3) =>",
    );
}

#[test]
fn string_coercion() {
    both(
        "emit('10' + 1, '3' * '4', 10 .. 20, '0x10' + 0, ' 5 ' * 2, -'2', '1e1' / 1, 1 .. '', 1.5 .. '|', -0 .. '')
         emit('1' == 1, 1 == 1.0, 'a' < 'b', 'a' < 'B', '' < 'a', 'Z' < 'a', 'abc' < 'abd', 'ab' < 'abc', 'a' <= 'a', 'b' > 'a', 'a' >= 'b')",
        "emit(11,12,\"1020\",16,10,-2,10,\"1\",\"1.5|\",\"-0\") emit(false,true,true,false,true,true,true,true,true,true,false) =>",
    );
    both(
        "emit(pcall(function() return 'a' + 1 end))
         emit(pcall(function() return 1 < '2' end))
         emit(pcall(function() return {} .. 'x' end))
         emit(pcall(function() return nil .. 'x' end))
         emit(pcall(function() return true .. 'x' end))
         emit(pcall(function() return {} < {} end))
         emit(pcall(function() return 1 < nil end))
         emit(pcall(function() return -{} end))
         emit(pcall(function() return #5 end))
         emit(pcall(function() return '' + 1 end))
         emit(pcall(function() return 'inf' + 1 end))",
        &format!("{}=>", "emit(false,\"<runtime error>\") ".repeat(11)),
    );
}

#[test]
fn length() {
    both("emit(#'abc', #'', #{1, 2, 3}, #{}, #{n = 1}, #'a\\0b', #{'a', 'b', x = 1})", "emit(3,0,3,0,0,3,2) =>");
    both("local t = {} for i = 1, 100 do t[i] = i end emit(#t) t[#t + 1] = 0 emit(#t) t[#t] = nil emit(#t)", "emit(100) emit(101) emit(100) =>");
}

#[test]
fn closures_in_loops() {
    both(
        "local fs = {}
         for i = 1, 3 do local j = i * 10 fs[#fs + 1] = function() i = i + 1 return i, j end end
         emit(fs[1]()) emit(fs[1]()) emit(fs[2]()) emit(fs[3]())",
        "emit(2,10) emit(3,10) emit(3,20) emit(4,30) =>",
    );
    both(
        "local k = 0 local gs = {}
         while k < 3 do k = k + 1 local c = k gs[k] = function() c = c + 1 return c end end
         emit(gs[1](), gs[1](), gs[3]())",
        "emit(2,3,4) =>",
    );
    both(
        "local hs = {}
         for i, v in ipairs({'a', 'b'}) do hs[i] = function() return i .. v end end
         emit(hs[1](), hs[2]())",
        "emit(\"1a\",\"2b\") =>",
    );
    both(
        "local rs = {} local n = 0
         repeat n = n + 1 local m = n * 2 rs[n] = function() return m end until n == 3
         emit(rs[1](), rs[2](), rs[3]())",
        "emit(2,4,6) =>",
    );
}

#[test]
fn upvalue_sharing() {
    both(
        "local function counter() local n = 0 return function() n = n + 1 return n end, function() return n end end
         local inc, get = counter() inc() inc()
         local inc2, get2 = counter() inc2()
         emit(get(), get2())
         local x = 1
         local function setx(v) x = v end
         local function getx() return x end
         setx(5) emit(x, getx()) x = 7 emit(getx())",
        "emit(2,1) emit(5,5) emit(7) =>",
    );
    // a closure nested two levels deep reaches the outermost local
    both(
        "local a = 1
         local function outer() return function() a = a + 1 return a end end
         local f = outer() f() emit(a, f(), a)",
        "emit(2,3,3) =>",
    );
}

#[test]
fn recursion() {
    both(
        "local function fact(n) if n <= 1 then return 1 end return n * fact(n - 1) end
         emit(fact(10))
         local even, odd
         function even(n) if n == 0 then return true end return odd(n - 1) end
         function odd(n) if n == 0 then return false end return even(n - 1) end
         emit(even(10), odd(7), even(7))
         local f = function(n) return f end
         emit(f(1))
         local function g(n) return g end
         emit(g(1) == g)
         local function fib(n) if n < 2 then return n end return fib(n - 1) + fib(n - 2) end
         emit(fib(15))",
        "emit(3628800) emit(true,true,false) emit(nil) emit(true) emit(610) =>",
    );
    both("function gfact(n) return n <= 1 and 1 or n * gfact(n - 1) end emit(gfact(5), _G.gfact == gfact)", "emit(120,true) =>");
}

#[test]
fn repeat_until_scope() {
    both("local i = 0 repeat local done = i >= 2 i = i + 1 until done emit(i)", "emit(3) =>");
    both("local i = 0 repeat i = i + 1 until true emit(i)", "emit(1) =>");
    both("local i = 0 repeat i = i + 1 if i == 2 then break end until false emit(i)", "emit(2) =>");
    both("local function f() repeat local x = 5 return x until true end emit(f())", "emit(5) =>");
}

#[test]
fn numeric_for() {
    both("for i = 3, 1, -1 do emit(i) end", "emit(3) emit(2) emit(1) =>");
    both("for i = 1, 2, 0.5 do emit(i) end", "emit(1) emit(1.5) emit(2) =>");
    both("for i = 1, 0 do emit('no') end for i = 10, 1 do emit('never') end for i = 1, 2, -1 do emit('no') end", "=>");
    both("for i = 0.1, 0.35, 0.1 do emit(i) end", "emit(0.1) emit(0.2) emit(0.30000000000000004) =>");
    both("local s = 0 for i = 1, 100 do s = s + i end emit(s)", "emit(5050) =>");
    both("for i = 1, 3 do local i = i * 2 emit(i) end", "emit(2) emit(4) emit(6) =>");
    both("for i = 1, 3 do i = 10 emit(i) end", "emit(10) emit(10) emit(10) =>");
    both("local function p(x) emit('p', x) return x end for i = p(1), p(2), p(1) do end", "emit(\"p\",1) emit(\"p\",2) emit(\"p\",1) =>");
    both("for i = 1, math.huge do if i > 3 then break end emit(i) end", "emit(1) emit(2) emit(3) =>");
    both("for i = -1, -3, -1 do emit(i) end for i = 1, 1 do emit(i) end", "emit(-1) emit(-2) emit(-3) emit(1) =>");
    both("local n = 3 for i = 1, n do n = 10 emit(i) end", "emit(1) emit(2) emit(3) =>");
    both("for i = 1, 3 do end emit(i)", "emit(nil) =>");
    both("emit(pcall(function() for i = 1, 'x' do end end))", "emit(false,\"<runtime error>\") =>");
    both("emit(pcall(function() for i = nil, 2 do end end))", "emit(false,\"<runtime error>\") =>");
    both("local function f() for i = 1, 10 do if i == 4 then return i end end end emit(f())", "emit(4) =>");
}

#[test]
fn generic_for() {
    both(
        "local t = {10, 20, 30, x = 'a', y = 'b'}
         for k, v in pairs(t) do emit(k, v) end",
        "emit(1,10) emit(2,20) emit(3,30) emit(\"x\",\"a\") emit(\"y\",\"b\") =>",
    );
    both("for i, v in ipairs({1, 2, nil, 4}) do emit(i, v) end", "emit(1,1) emit(2,2) =>");
    both("for k, v in next, {a = 1} do emit(k, v) end for k in pairs({}) do emit('no') end", "emit(\"a\",1) =>");
    both(
        "local function range(n) local i = 0 return function() i = i + 1 if i <= n then return i end end end
         for i in range(3) do emit(i) end
         local function iter(s, c) if c < s then return c + 1, c * c end end
         for a, b in iter, 3, 0 do emit(a, b) end",
        "emit(1) emit(2) emit(3) emit(1,0) emit(2,1) emit(3,4) =>",
    );
    // assigning nil to existing fields during traversal is allowed
    both("local d = {a = 1, b = 2, c = 3} for k in pairs(d) do d[k] = nil end emit(next(d))", "emit(nil) =>");
    both("local d = {a = 1, b = 2, c = 3} for k, v in pairs(d) do d.b = nil emit(k) end", "emit(\"a\") emit(\"c\") =>");
    both("local d = {1, 2, 3} for k, v in pairs(d) do d[k] = v * 2 end emit(d)", "emit({1=2,2=4,3=6}) =>");
    // extra loop variables are nil, the control variable is the first
    both("for a, b, c in pairs({5}) do emit(a, b, c) end", "emit(1,5,nil) =>");
    both("for k, v in pairs({1, 2, 3}) do if k == 2 then break end emit(k) end", "emit(1) =>");
    both("emit(next({}), next({7}), next({7}, 1))", "emit(nil,1,nil) =>");
    both("emit(pcall(next, {}, 'nokey'))", "emit(false,\"<runtime error>\") =>");
    both("emit(pcall(function() for x in nil do end end))", "emit(false,\"<runtime error>\") =>");
    lua51("emit(pcall(function() for x in {} do end end))", "emit(false,\"<runtime error>\") =>");
    // a callable table is a fine iterator in both dialects
    both(
        "local it = setmetatable({}, {__call = function(self, s, c) if c < 2 then return c + 1 end end})
         for i in it, nil, 0 do emit(i) end",
        "emit(1) emit(2) =>",
    );
}

#[test]
fn assignment_order() {
    both("local a, b = 1, 2 a, b = b, a emit(a, b)", "emit(2,1) =>");
    both("local t = {} local i = 1 i, t[i] = i + 1, 'x' emit(i, t[1], t[2])", "emit(2,\"x\",nil) =>");
    both(
        "local function o(tag) emit(tag) return tag end
         local tt = {} tt[o('k1')], tt[o('k2')] = o('v1'), o('v2') emit(tt.k1, tt.k2)",
        "emit(\"k1\") emit(\"k2\") emit(\"v1\") emit(\"v2\") emit(\"v1\",\"v2\") =>",
    );
    both(
        "local function o(tag) emit(tag) return {} end
         o('a').x = o('b')
         local r = {o(1), k = o(2), [o(3)] = o(4), o(5)}
         emit(o(6) == o(7))",
        "emit(\"a\") emit(\"b\") emit(1) emit(2) emit(3) emit(4) emit(5) emit(6) emit(7) emit(false) =>",
    );
    both("x = 5 emit(x, _G.x) _G.y = 6 emit(y) x = nil emit(x)", "emit(5,5) emit(6) emit(nil) =>");
    both("local t = {} t.a = {} t.a.b = 1 t['a']['c'] = 2 emit(t)", "emit({\"a\"={\"b\"=1,\"c\"=2}}) =>");
}

#[test]
fn scoping() {
    both("local x = 1 do local x = 2 emit(x) end emit(x)", "emit(2) emit(1) =>");
    both("local x = x emit(x) local y = 1 local y = y + 1 emit(y)", "emit(nil) emit(2) =>");
    both(
        "local function shadow() local emit2 = emit local emit = function(...) emit2('shadowed', ...) end emit(1) end
         shadow() emit(2)",
        "emit(\"shadowed\",1) emit(2) =>",
    );
    both("local type = function() return 'mine' end emit(type(1)) emit(_G.type(1))", "emit(\"mine\") emit(\"number\") =>");
    both("if false then emit(1) elseif nil then emit(2) elseif 0 then emit(3) else emit(4) end", "emit(3) =>");
    both("if false then emit(1) else emit(4) end if true then local q = 1 end emit(q)", "emit(4) emit(nil) =>");
    both("local i = 0 while true do i = i + 1 if i > 5 then break end end emit(i)", "emit(6) =>");
    both("local i = 0 while i < 3 do local j = 0 while true do j = j + 1 if j == 2 then break end end i = i + j end emit(i)", "emit(4) =>");
    both("do return 1 end", "=> 1");
    both("local function f() do return 1, 2 end end emit(f())", "emit(1,2) =>");
    both("local function f(a, b) return a, b end emit(f(1)) emit(f(1, 2, 3))", "emit(1,nil) emit(1,2) =>");
    both("local function f(a, a) return a end emit(f(1, 2))", "emit(2) =>");
}

#[test]
fn tables_and_keys() {
    both("local t = {} t[1] = 'a' t[1.0] = 'b' emit(#t, t[1]) t[2^53] = 1 emit(t[2^53])", "emit(1,\"b\") emit(1) =>");
    both(
        "local t = {}
         emit(pcall(function() t[nil] = 1 end)) emit(pcall(function() t[0/0] = 1 end)) emit(t[nil], t[0/0])
         emit(pcall(function() return {[nil] = 1} end))",
        "emit(false,\"<runtime error>\") emit(false,\"<runtime error>\") emit(nil,nil) emit(false,\"<runtime error>\") =>",
    );
    both(
        "local u = {'a', x = 1, 'b', [10] = 10, 'c'} emit(#u, u[1], u[2], u[3], u[10], u.x)
         emit(({[1] = 'x', [2] = 'y'})[2]) emit({1, 2, nil}) local w = {n = nil} emit(next(w))
         local k = {} local f = function() end local m = {[k] = 1, [f] = 2, [true] = 3, [1.5] = 4, [-0] = 5}
         emit(m[k], m[f], m[true], m[1.5], m[0], m[{}])",
        "emit(3,\"a\",\"b\",\"c\",10,1) emit(\"y\") emit({1=1,2=2}) emit(nil) emit(1,2,3,4,5,nil) =>",
    );
    both("local t = {'a', 'b'} t[1], t[2] = t[2], t[1] emit(t)", "emit({1=\"b\",2=\"a\"}) =>");
    both("local t = {{1}, {2, {3}}} emit(t[2][2][1], t)", "emit(3,{1={1=1},2={1=2,2={1=3}}}) =>");
    both("local t = {} t.x = 1 t.x = nil emit(t.x, next(t), t) t.y = nil emit(t)", "emit(nil,nil,{}) emit({}) =>");
    both("local s = {} local t = {s, s} emit(t) t[3] = t emit(t)", "emit({1={},2={}}) emit({1={},2={},3=<cycle 0>}) =>");
    both("emit(pcall(function() local x x.y = 1 end)) emit(pcall(function() local x return x.y end)) emit(pcall(function() return (1).x end))",
        "emit(false,\"<runtime error>\") emit(false,\"<runtime error>\") emit(false,\"<runtime error>\") =>");
}

#[test]
fn globals_and_environment() {
    both("emit(_G._G == _G, _G.emit == emit, getmetatable(_G))", "emit(true,true,nil) =>");
    both(
        "emit(type(getfenv), type(setfenv), type(loadstring), type(load), type(coroutine), type(os), type(io), type(require), type(bit32))",
        "emit(\"nil\",\"nil\",\"nil\",\"nil\",\"nil\",\"nil\",\"nil\",\"nil\",\"nil\") =>",
    );
    both("emit(type(nil), type(1), type('s'), type({}), type(print), type(true), type(type))",
        "emit(\"nil\",\"number\",\"string\",\"table\",\"function\",\"boolean\",\"function\") =>");
    luau("emit(typeof(1), typeof({}), typeof(nil))", "emit(\"number\",\"table\",\"nil\") =>");
    lua51("emit(typeof)", "emit(nil) =>");
    both("emit(type(debug.profilebegin), debug.profilebegin('x')) emit(debug.profileend())", "emit(\"function\") emit() =>");
    both("print(1, 'a', {}) emit(print(2))", "print(1,\"a\",{}) print(2) emit() =>");
}

#[test]
fn pcall_and_error() {
    both("emit(pcall(error, {code = 1}))", "emit(false,{\"code\"=1}) =>");
    both("emit(pcall(error)) emit(pcall(error, nil)) emit(pcall(error, 'msg', 0)) emit(pcall(error, 'msg'))",
        "emit(false,nil) emit(false,nil) emit(false,\"msg\") emit(false,\"msg\") =>");
    both("emit(pcall(function() error('m') end)) emit(pcall(function(...) return ... end, 1, 2)) emit(pcall(function() end))",
        "emit(false,\"m\") emit(true,1,2) emit(true) =>");
    both("emit(pcall(pcall, error, 1)) emit(select('#', pcall(function() end))) emit(pcall(error, 42)) emit(pcall(error, false))",
        "emit(true,false,1) emit(1) emit(false,42) emit(false,false) =>");
    both(
        "local ok, e = pcall(function() local ok2, e2 = pcall(error, 'in') error(e2 .. 'out') end) emit(ok, e)
         local t = {} local ok3, e3 = pcall(error, t) emit(e3 == t)",
        "emit(false,\"inout\") emit(true) =>",
    );
    both("emit(pcall(assert, false)) emit(pcall(assert, nil, 'custom')) emit(assert(1, 2, 3)) emit(pcall(assert, false, {1})) emit(pcall(assert))",
        "emit(false,\"assertion failed!\") emit(false,\"custom\") emit(1,2,3) emit(false,{1=1}) emit(false,\"<runtime error>\") =>");
    both("emit(pcall(nil)) emit(pcall(5)) emit(pcall({}))",
        "emit(false,\"<runtime error>\") emit(false,\"<runtime error>\") emit(false,\"<runtime error>\") =>");
    // state changed before the error stays changed
    both("local n = 0 pcall(function() n = 1 error('x') n = 2 end) emit(n)", "emit(1) =>");
}

#[test]
fn error_classes() {
    both("emit(1) error('boom') emit(2)", "emit(1) !user:\"boom\"");
    both("error({1})", "!user:{1=1}");
    both("error()", "!user:nil");
    both("error(nil)", "!user:nil");
    both("error(12)", "!user:12");
    both("local x = nil x.y = 1", "!runtime");
    both("local x x()", "!runtime");
    both("return 1 + {}", "!runtime");
    both("return #5", "!runtime");
    both("return {} < {}", "!runtime");
    both("return {} .. ''", "!runtime");
    both("return ('x')()", "!runtime");
    both("undefined_global.field = 1", "!runtime");
    both("assert(false)", "!user:\"assertion failed!\"");
    both("assert(nil, 'why')", "!user:\"why\"");
    both("assert(1 == 1, 'fine') emit('ok')", "emit(\"ok\") =>");
    both("local function f() return f() + 1 end f()", "!stack");
    both("local function f() return f() end f()", "!stack");
    both("local function f() local ok, e = pcall(f) if not ok then error(e, 0) end end emit(pcall(f))", "emit(false,\"stack overflow\") =>");
    both("local ok, e = pcall(error, setmetatable({}, {__tostring = function() return 'E' end})) error(e)", "!user:{}@mt");
}

#[test]
fn step_budget() {
    both("emit(1) while true do end emit(2)", "emit(1) !steps");
    both("repeat until false", "!steps");
    both("for i = 1, 1e9 do end", "!steps");
    both("local function f() end while true do f() end", "!steps");
    both("pcall(function() while true do end end) emit('unreachable')", "!steps");
    both("local s = 'x' while true do s = s .. s end", "!steps");
    both("local t = {} local i = 0 while true do i = i + 1 t[i] = i end", "!steps");
    both("for i = 1, 1000 do end emit('done')", "emit(\"done\") =>");
    both("local s = '' for i = 1, 2000 do s = s .. 'ab' end emit(#s)", "emit(4000) =>");
}

#[test]
fn call_depth() {
    both("local function d(n) if n == 0 then return 0 end return 1 + d(n - 1) end emit(d(100))", "emit(100) =>");
    both("local function d(n) if n == 0 then return 0 end return 1 + d(n - 1) end emit(pcall(d, 1000))", "emit(false,\"stack overflow\") =>");
}
