//! `luaref`: an independent tree-walking reference interpreter for Lua 5.1 and Luau over the
//! `luasyn` AST.  It is the behavioural oracle of the harness: an original and a transformed
//! program are both run here and their observable behaviour (trace of host calls, returned
//! values / error class) compared.  Written from the reference manuals (DESIGN.md §3, §13).
//!
//! Decisions worth knowing when reading results:
//! * tables iterate in insertion order; a removed field keeps its slot until a *new* key is
//!   inserted, so assigning nil during a traversal is fine; `#t` returns a border (unique on
//!   hole-free sequences); `__len` is honoured whenever present;
//! * errors raised by the interpreter are the opaque string `<runtime error>` under `pcall`
//!   (`stack overflow` / `<require error>` for the other two internal classes); `error(v)` never
//!   adds position information;
//! * resources: one step per statement, call and loop iteration, plus proportional charges for
//!   long strings (64 bytes a step), long string keys / comparisons, big snapshots and the O(n)
//!   library functions.  A string longer than 1 MiB ends the run as `OutOfSteps`.  Neither is
//!   catchable by `pcall`;
//! * Luau `tostring(number)`: shortest round-trip digits, plain notation for a decimal exponent
//!   in -6 ..= 20 (`1e-6` is `0.000001`, `1e-7` is `1e-07`, `1e21` is `1e+21`);
//! * `RequireAction::External` (and a non-string argument) records `Event{name: "require"}` and
//!   returns the string `<ext:ARG>`.

mod fmt;
mod interp;
mod snap;
mod stdlib;
mod value;

#[cfg(test)]
mod tests;
#[cfg(test)]
mod tests_text;

use crate::luasyn::ast::Block;
use std::rc::Rc;

#[derive(Clone, Copy, Debug, PartialEq, Eq, Hash)]
pub enum Dialect {
    Lua51,
    Luau,
}

thread_local! {
    static DIALECT_EVENTS: std::cell::Cell<[u64; 2]> = const { std::cell::Cell::new([0, 0]) };
}

/// Dialect-dependent operations performed by runs on this thread since the last call, as
/// `[general, percent_star]`: `general` counts operations whose result differs between the Lua 5.1
/// and Luau dialects of this interpreter (number -> string conversion where `%.14g` and the
/// shortest round-trip form differ, `%` where the two definitions differ, generic `for` over a
/// table, a call of `typeof`, `%s` of string.format given something that is neither a string nor a
/// number); `percent_star` counts uses of the Luau-only `%*` of string.format.  A run that performs
/// none behaves identically under both dialects.
pub fn take_dialect_events() -> [u64; 2] {
    DIALECT_EVENTS.with(|c| c.replace([0, 0]))
}

pub(crate) fn note_dialect_event(kind: usize) {
    DIALECT_EVENTS.with(|c| {
        let mut v = c.get();
        v[kind] += 1;
        c.set(v);
    });
}

/// structural snapshot of a value (deep; tables printed structurally with cycle marks)
pub type Snap = String;

#[derive(Clone, Debug, PartialEq, Eq)]
pub struct Event {
    pub name: String,
    pub args: Vec<Snap>,
}

#[derive(Clone, Debug, PartialEq, Eq)]
pub enum Outcome {
    /// finished normally: trace of host calls + snapshot of the chunk's return values
    Done { trace: Vec<Event>, ret: Vec<Snap> },
    /// an error escaped the chunk; `trace` = events before it; `class` = coarse class of the error
    Error { trace: Vec<Event>, class: String },
    OutOfSteps { trace: Vec<Event> },
}

#[derive(Clone, Debug)]
pub struct Config {
    pub dialect: Dialect,
    /// default 200_000
    pub step_budget: u64,
    /// default 160; a deeper call raises a Lua error (class "stack")
    pub max_call_depth: usize,
    /// true: `assert` returns all its arguments and never raises
    pub assert_passthrough: bool,
    /// globals set before running (also visible through `_G`)
    pub preset_globals: Vec<(String, PresetValue)>,
    /// extra host functions installed as globals; they behave like `probe`
    pub extra_hosts: Vec<String>,
}

impl Default for Config {
    fn default() -> Self {
        Config {
            dialect: Dialect::Luau,
            step_budget: 200_000,
            max_call_depth: 160,
            assert_passthrough: false,
            preset_globals: Vec::new(),
            extra_hosts: Vec::new(),
        }
    }
}

#[derive(Clone, Debug, PartialEq)]
pub enum PresetValue {
    Nil,
    Bool(bool),
    Num(f64),
    Str(Vec<u8>),
    Array(Vec<PresetValue>),
    Object(Vec<(String, PresetValue)>),
}

/// what `require(x)` does: the harness supplies a resolver
pub trait RequireHost {
    /// called with the raw bytes of the argument when it is a string
    fn require(&mut self, arg: &[u8], from_chunk: &str) -> RequireAction;
}

pub enum RequireAction {
    /// run `block` as a chunk named `chunk_name`, once per `cache_key`; the first return value
    /// is cached by `cache_key`; a module chunk must return exactly one value, else a Lua error
    /// of class "require"
    Module { cache_key: String, chunk_name: String, block: Rc<Block> },
    /// return this constant (data files)
    Value(PresetValue),
    /// record `Event{name:"require", args:[snapshot of arg]}` and return the string
    /// `"<ext:" .. arg .. ">"`
    External,
    /// raise a Lua error (class "require")
    Fail(String),
}

/// Stack size of the threads spawned by the `run*_isolated` variants.  `run*` use the current
/// thread and the caller guarantees enough stack: measured worst case (deepest nesting the
/// interpreter accepts before raising its own "stack" error) is < 4 MB in a release build and
/// < 64 MB in a debug build.  Spawning a thread costs about a millisecond on the build machine,
/// so bulk callers should run many programs on one big-stack worker thread with `run*`.
pub const STACK_BYTES: usize = 256 << 20;

/// runs on the current thread (see [`STACK_BYTES`]); `require` is absent (a nil global)
pub fn run(block: &Block, cfg: &Config) -> Outcome {
    interp::run_main(block, cfg, None, "main", &[])
}

/// debugging aid: like [`run`], also returning the human-readable message of an escaping
/// interpreter-raised error (never part of the compared behaviour)
pub fn run_debug(block: &Block, cfg: &Config) -> (Outcome, Option<String>) {
    interp::run_main_msg(block, cfg, None, "main", &[])
}

pub fn run_with_require(
    block: &Block,
    cfg: &Config,
    host: &mut dyn RequireHost,
    chunk_name: &str,
) -> Outcome {
    interp::run_main(block, cfg, Some(host), chunk_name, &[])
}

/// runs `block` after defining each of the given global names as a distinct *loud* value: a
/// table whose (shared) metatable implements every metamethod as a host function recording
/// `Event{name:"meta:<metamethod>", args: []}`
pub fn run_with_loud_globals(block: &Block, cfg: &Config, loud_names: &[String]) -> Outcome {
    interp::run_main(block, cfg, None, "main", loud_names)
}

fn on_big_stack<T: Send>(f: impl FnOnce() -> T + Send) -> T {
    std::thread::scope(|s| {
        std::thread::Builder::new()
            .stack_size(STACK_BYTES)
            .spawn_scoped(s, f)
            .expect("spawn interpreter thread")
            .join()
            .expect("interpreter thread panicked")
    })
}

/// like [`run`] on a fresh thread with a [`STACK_BYTES`] stack
pub fn run_isolated(block: &Block, cfg: &Config) -> Outcome {
    on_big_stack(|| run(block, cfg))
}

pub fn run_with_loud_globals_isolated(
    block: &Block,
    cfg: &Config,
    loud_names: &[String],
) -> Outcome {
    on_big_stack(|| run_with_loud_globals(block, cfg, loud_names))
}

struct HostPtr(*mut (dyn RequireHost + 'static));
// SAFETY: the spawning thread is blocked in `join` for the whole life of the child, so the host
// (and every `Rc` it hands out) is only ever touched by one thread at a time.
unsafe impl Send for HostPtr {}

pub fn run_with_require_isolated(
    block: &Block,
    cfg: &Config,
    host: &mut dyn RequireHost,
    chunk_name: &str,
) -> Outcome {
    // erase the trait-object lifetime; the pointer does not outlive this call
    let raw: *mut dyn RequireHost = host;
    let p = HostPtr(unsafe { std::mem::transmute::<*mut dyn RequireHost, *mut (dyn RequireHost + 'static)>(raw) });
    on_big_stack(move || {
        let p = p;
        let host: &mut dyn RequireHost = unsafe { &mut *p.0 };
        run_with_require(block, cfg, host, chunk_name)
    })
}

/// number formatting exposed for other checks
pub fn fmt_number(v: f64, d: Dialect) -> String {
    fmt::fmt_number(v, d)
}

/// string -> number coercion (the `tonumber` / arithmetic rule); `None` if not convertible
pub fn str_to_number(s: &[u8], d: Dialect) -> Option<f64> {
    fmt::str_to_number(s, d)
}
