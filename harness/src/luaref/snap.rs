//! Deep structural snapshots of values (deterministic text used for equality and for humans).

use super::interp::Interp;
use super::value::Value;

const MAX_DEPTH: usize = 48;
/// a snapshot stops growing past this many bytes (the tail is replaced by a marker)
const MAX_BYTES: usize = 1 << 18;

pub(crate) fn snap_number(n: f64) -> String {
    if n.is_nan() {
        "nan".to_string()
    } else if n.is_infinite() {
        if n > 0.0 { "inf".to_string() } else { "-inf".to_string() }
    } else {
        // 0 and -0 differ by their sign
        format!("{:.17e}", n)
    }
}

pub(crate) fn snap_string(s: &[u8], out: &mut String) {
    out.push('"');
    for &b in s {
        match b {
            b'"' => out.push_str("\\\""),
            b'\\' => out.push_str("\\\\"),
            0x20..=0x7e => out.push(b as char),
            _ => {
                out.push_str("\\x");
                out.push_str(&format!("{:02X}", b));
            }
        }
    }
    out.push('"');
}

/// returns the text and the number of nodes visited (used to charge steps)
pub(crate) fn snapshot(it: &Interp, v: &Value) -> (String, u64) {
    let mut out = String::new();
    let mut path: Vec<u32> = Vec::new();
    let mut nodes = 0u64;
    walk(it, v, &mut path, &mut out, &mut nodes);
    (out, nodes)
}

fn walk(it: &Interp, v: &Value, path: &mut Vec<u32>, out: &mut String, nodes: &mut u64) {
    *nodes += 1;
    match v {
        Value::Nil => out.push_str("nil"),
        Value::Bool(true) => out.push_str("true"),
        Value::Bool(false) => out.push_str("false"),
        Value::Num(n) => out.push_str(&snap_number(*n)),
        Value::Str(s) => snap_string(s, out),
        Value::Func(_) => out.push_str("<fn>"),
        Value::Table(t) => {
            if let Some(pos) = path.iter().position(|p| p == t) {
                out.push_str(&format!("<cycle {}>", pos));
                return;
            }
            if path.len() >= MAX_DEPTH {
                out.push_str("<deep>");
                return;
            }
            if out.len() > MAX_BYTES {
                out.push_str("<big>");
                return;
            }
            path.push(*t);
            out.push('{');
            let tb = &it.tables[*t as usize];
            let mut first = true;
            for (k, val) in tb.entries() {
                if !first {
                    out.push(',');
                }
                first = false;
                if out.len() > MAX_BYTES {
                    out.push_str("<big>");
                    break;
                }
                walk(it, k, path, out, nodes);
                out.push('=');
                walk(it, val, path, out, nodes);
            }
            out.push('}');
            if tb.meta.is_some() {
                out.push_str("@mt");
            }
            path.pop();
        }
    }
}
