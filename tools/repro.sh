#!/bin/bash
# tools/repro.sh <replay.json> : run the darklua debug binary on the replay's source/config
python3 - "$1" <<'PY'
import json,sys
d=json.load(open(sys.argv[1]))
open('/root/scratch/t/a.lua','w').write(d['source'])
open('/root/scratch/t/c.json5','w').write(d['config'])
PY
cd /root/scratch/t && /repo/target/debug/darklua process -c c.json5 a.lua b.lua 2>&1 | tail -1; echo "--- output"; cat b.lua; echo
