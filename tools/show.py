#!/usr/bin/env python3
import json,sys
d=json.load(open(sys.argv[1]))
for k,v in d.items():
    if k in('source','message','output'): continue
    print(k,':',v if not isinstance(v,str) or len(v)<400 else v[:400])
print('--- source'); print(d.get('source',''))
print('--- message'); print(d.get('message',''))
