#!/usr/bin/env python3
"""add_finding.py <id> <property> <replay-file-to-copy> <what> [--avoid s] [--signature-from-replay]
Development-time helper: copies a replay into findings/ and lists it in known_findings.json."""
import json, sys, shutil
a = sys.argv[1:]
fid, prop, src, what = a[0], a[1], a[2], a[3]
p = '/verif/findings/known_findings.json'
k = json.load(open(p))
assert not any(f['id'] == fid for f in k['findings']), 'duplicate id'
dst = f'findings/{fid}.json'
shutil.copy(src, '/verif/' + dst)
e = {"id": fid, "property": prop, "status": "known", "what": what, "replay": dst}
if '--avoid' in a:
    e['avoid'] = a[a.index('--avoid') + 1]
if '--signature-from-replay' in a:
    e['signature'] = json.load(open(src))['signature']
k['findings'].append(e)
json.dump(k, open(p, 'w'), indent=1, ensure_ascii=False)
print('added', fid)
