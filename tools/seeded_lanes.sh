#!/bin/bash
# seeded_lanes.sh <lanes> <out-file> [extra "<seeded-id> <check>" pairs file]
# Re-runs EVERY kept seeded change against the quick tier of the check of its own property, in
# <lanes> parallel copies of /repo and /verif under /root/scratch/lanes (never touching /repo or
# /verif), and writes one line per run to <out-file>:
#   "<seeded-id> <check> quick CAUGHT|missed|INCONCLUSIVE :: <first message line>"
# SEEDED_FILTER=<regex> restricts the run to the matching seeded ids.
# The copies and their build output are removed at the end.
set -u
lanes=${1:-4}; out=${2:-/root/scratch/lanes/results.txt}; extra=${3:-}
base=/root/scratch/lanes
mkdir -p $base; : > "$out"
ids=$(ls /verif/seeded | grep -E '^C[0-9]{2}-' | grep -E -e "${SEEDED_FILTER:-.}" | sort)
# work list: "<id> <check>"
list=$base/list.txt; : > $list
for id in $ids; do echo "$id ${id%%-*}" >> $list; done
[ -n "$extra" ] && cat "$extra" >> $list
for l in $(seq 1 $lanes); do
  d=$base/$l
  mkdir -p $d
  rsync -a --delete --exclude target /repo/ $d/repo/
  rsync -a --delete --exclude .work --exclude .target/fuzz --exclude .target/checked --exclude .target/cli /verif/ $d/verif/
  sed -i "s#path = \"/repo\"#path = \"$d/repo\"#" $d/verif/harness/Cargo.toml
  sed -i "s#cd /repo \&\&#cd $d/repo \&\&#" $d/verif/check
  git -C $d/repo checkout -q -- . 2>/dev/null
done
run_lane() {
  local l=$1 d=$base/$1
  awk -v n=$lanes -v l=$l 'NR % n == l % n' $list | while read -r id c; do
    git -C $d/repo checkout -q -- .
    if ! git -C $d/repo apply /verif/seeded/$id/patch.diff 2>/dev/null; then echo "$id $c quick NOAPPLY ::" >> "$out"; continue; fi
    o=$(VERIF_NO_MINIMIZE=1 $d/verif/check $c quick 2>&1 | grep -v "KNOWN-FINDING\|WARNING conda")
    v=$(echo "$o" | grep -A1 "^VIOLATION" | sed -n 2p | cut -c1-160)
    if echo "$o" | grep -q "^VIOLATION"; then r=CAUGHT; elif echo "$o" | grep -q INCONCLUSIVE; then r=INCONCLUSIVE; else r=missed; fi
    echo "$id $c quick $r :: $v" >> "$out"
    git -C $d/repo checkout -q -- .
  done
}
for l in $(seq 1 $lanes); do run_lane $l & done
wait
sort -o "$out" "$out"
for l in $(seq 1 $lanes); do rm -rf $base/$l; done
echo "done: $(grep -c CAUGHT "$out") caught, $(grep -c missed "$out") missed, $(grep -c INCONCLUSIVE "$out") inconclusive, $(grep -c NOAPPLY "$out") not applicable"
