#!/bin/bash
# fuzz_stage.sh <ID> <phase> <max_len> <runs_per_worker>
# Coverage-guided stage of a thorough tier: libFuzzer (cargo-fuzz build, no sanitizer: darklua has no
# unsafe code of its own; debug assertions and overflow checks are ON in this build) mutates the choice
# tape of one search phase of a property; the oracle is the phase's own oracle.
# exit 0 = no failure, 1 = VIOLATION printed (artifact converted to a replay file), 2 = inconclusive.
set -u
id=$1; phase=$2; maxlen=$3; runs=$4
cd "$(dirname "$0")/.."
export VERIF_DIR="$PWD" CARGO_NET_OFFLINE=true
workers=${VERIF_THREADS:-16}
dir=$VERIF_DIR/.work/fuzz/$id-$phase
rm -rf "$dir"; mkdir -p "$dir/corpus" "$dir/artifacts"
if ! CARGO_TARGET_DIR=$VERIF_DIR/.target/fuzz cargo +nightly fuzz build -s none --fuzz-dir fuzz prop_case > "$dir/build.log" 2>&1; then
  # the stage is an extension of the thorough tier: without the nightly fuzz build it is skipped and said so
  echo "NOTE property=$id coverage-guided stage skipped: fuzz target build failed (see $dir/build.log)"
  echo "{\"property\":\"$id\",\"phase\":\"$phase\",\"skipped\":\"fuzz target build failed\"}" > "$dir/summary.json"
  exit 0
fi
bin=$VERIF_DIR/.target/fuzz/x86_64-unknown-linux-gnu/release/prop_case
seed=$(( (${VERIF_SEED:-1} % 2000000000) + 1 ))
( cd "$dir" && DLV_FUZZ_PROP=$id DLV_FUZZ_PHASE=$phase "$bin" corpus -runs=$runs -seed=$seed -max_len=$maxlen -len_control=0 \
    -timeout=120 -rss_limit_mb=4096 -jobs=$workers -workers=$workers -artifact_prefix=artifacts/ -print_final_stats=1 > fuzz.out 2>&1 )
execs=$(cat "$dir"/fuzz-*.log 2>/dev/null | awk '/stat::number_of_executed_units/ {s+=$2} END {print s+0}')
cov=$(cat "$dir"/fuzz-*.log 2>/dev/null | grep -o 'cov: [0-9]*' | awk '{if ($2>m) m=$2} END {print m+0}')
corp=$(ls "$dir/corpus" | wc -l)
echo "{\"property\":\"$id\",\"phase\":\"$phase\",\"engine\":\"libFuzzer via cargo-fuzz, choice-tape input, $workers workers\",\"executions\":$execs,\"coverage_edges\":$cov,\"corpus_units\":$corp,\"seed\":$seed,\"max_len\":$maxlen}" > "$dir/summary.json"
echo "fuzz stage property=$id phase=$phase executions=$execs edges=$cov corpus=$corp"
art=$(ls "$dir"/artifacts/crash-* 2>/dev/null | head -1)
if [ -n "$art" ]; then
  for b in release checked; do
    [ -x "$VERIF_DIR/.target/$b/dlv" ] || continue
    out=$("$VERIF_DIR/.target/$b/dlv" tape "$id" "$phase" "$art"); rc=$?
    if [ $rc -eq 1 ]; then
      echo "$out" | grep -v '^TAPE-FAILURE '
      echo "FUZZ-REPLAY $(echo "$out" | sed -n 's/^TAPE-FAILURE .*replay=//p' | head -1)"
      exit 1
    fi
  done
  echo "INCONCLUSIVE property=$id a fuzzer artifact ($art) does not reproduce outside the fuzz build"; exit 2
fi
if ls "$dir"/artifacts/timeout-* "$dir"/artifacts/oom-* > /dev/null 2>&1; then
  echo "INCONCLUSIVE property=$id the fuzzer hit a timeout / memory limit (not a violation): $(ls "$dir"/artifacts | head -1)"; exit 2
fi
exit 0
