#!/usr/bin/env python3
"""mark_fixed.py <finding-id> <commit>: development-time helper, turns a known entry into a fixed one."""
import json, sys
fid, commit = sys.argv[1], sys.argv[2]
p = '/verif/findings/known_findings.json'
k = json.load(open(p))
for f in k['findings']:
    if f['id'] == fid:
        assert f['status'] == 'known'
        f['status'] = 'fixed'; f['commit'] = commit
        f['what'] = f"fixed: property={f['property']} {commit} " + f['what']
        f.pop('avoid', None); f.pop('signature', None)
        print('marked', fid)
json.dump(k, open(p, 'w'), indent=1, ensure_ascii=False)
