#!/bin/bash
# repo_fix_commit.sh "<fix: message>": formats, runs the pinned suite on /repo's working tree and commits
# ONLY when all 3799 tests pass. Prints the new commit hash on success.
set -u
msg=$1
case "$msg" in "fix: "*) ;; *) echo "message must start with 'fix: '"; exit 2;; esac
cd /repo || exit 2
cargo fmt
out=$(cargo nextest run --workspace --no-fail-fast --tool-config-file pb:/w/lib/nextest.toml --profile pb --test-threads 8 --offline 2>&1 | grep -E "Summary|^\s+FAIL" | head -8)
echo "$out"
if echo "$out" | grep -q "3799 tests run: 3799 passed"; then
  git clean -fdq tests/ 2>/dev/null
  git commit -qam "$msg" && git log --oneline | head -1 | cut -d' ' -f1
else
  echo "NOT COMMITTED: the suite does not pass"; git clean -fdq tests/ 2>/dev/null; exit 1
fi
