#!/bin/bash
# seeded_confirm.sh <worktree> <n> <dest-id>
# Confirms a seeded change delivered by a sub-agent in its scratch worktree: the patch applies on a clean
# checkout, compiles, the whole pinned suite passes, and the demonstration prints something different
# on the original and on the changed code.  On success stores it as /verif/seeded/<dest-id>/.
set -u
wt=$1; n=$2; dest=/verif/seeded/$3
m=$wt/MUTANTS/$n
cd $wt || exit 2
git checkout -q -- . || exit 2
cargo build --offline -q 2>/dev/null || { echo "clean build failed"; exit 2; }
( bash $m/demo/run.sh ) > /tmp/demo_orig.$$ 2>&1
git apply --check $m/patch.diff || { echo "REJECT: patch does not apply"; exit 1; }
if git apply --numstat $m/patch.diff | awk '{print $3}' | grep -qv '^src/'; then echo "REJECT: touches non-src files"; exit 1; fi
git apply $m/patch.diff
cargo build --offline -q 2>/dev/null || { echo "REJECT: does not compile"; git checkout -q -- .; exit 1; }
( bash $m/demo/run.sh ) > /tmp/demo_mut.$$ 2>&1
if cmp -s /tmp/demo_orig.$$ /tmp/demo_mut.$$; then echo "REJECT: demonstration prints the same on both"; git checkout -q -- .; exit 1; fi
out=$(cargo nextest run --workspace --no-fail-fast --tool-config-file pb:/w/lib/nextest.toml --profile pb --test-threads 8 --offline 2>&1 | grep -E "Summary|^\s+FAIL" | head -5)
git checkout -q -- .
git status --short | grep -v MUTANTS | grep -q . && echo "warning: worktree not clean"
echo "$out"
if ! echo "$out" | grep -q "3799 passed"; then echo "REJECT: test suite does not pass"; exit 1; fi
mkdir -p $dest && cp -r $m/patch.diff $m/meta.json $m/demo $dest/
cp /tmp/demo_orig.$$ $dest/demo/observed_original.txt; cp /tmp/demo_mut.$$ $dest/demo/observed_changed.txt
rm -f /tmp/demo_orig.$$ /tmp/demo_mut.$$
echo "CONFIRMED -> $dest"
