#!/bin/bash
# seeded_run.sh <seeded-id> <tier> <check-id>...
# Applies /verif/seeded/<id>/patch.diff to /repo, runs the given checks, and ALWAYS restores /repo.
# Prints one line per check: "<seeded-id> <check> <tier> exit=<rc> <first VIOLATION message line>"
set -u
id=$1; tier=$2; shift 2
d=/verif/seeded/$id
[ -z "$(git -C /repo status --short)" ] || { echo "/repo is not clean"; exit 2; }
git -C /repo apply $d/patch.diff || { echo "$id: patch does not apply to /repo HEAD"; exit 2; }
trap 'git -C /repo checkout -q -- .' EXIT
for c in "$@"; do
  out=$(VERIF_NO_MINIMIZE=1 /verif/check $c $tier 2>&1 | grep -v "KNOWN-FINDING\|WARNING conda")
  rc=$?
  v=$(echo "$out" | grep -A1 "^VIOLATION" | tail -1 | cut -c1-160)
  if echo "$out" | grep -q "^VIOLATION"; then r=CAUGHT; elif echo "$out" | grep -q INCONCLUSIVE; then r=INCONCLUSIVE; else r=missed; fi
  echo "$id $c $tier $r :: $v"
done
