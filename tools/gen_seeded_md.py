#!/usr/bin/env python3
"""Writes /verif/seeded/RESULTS.md from seeded/*/meta.json and seeded/results.txt (documentation only)."""
import json, os, re, glob
root = '/verif/seeded'
res = {}
for line in open(f'{root}/results.txt'):
    if line.startswith('#') or not line.strip():
        continue
    m = re.match(r'(\S+) (\S+) (\S+) (\S+) :: ?(.*)', line.strip())
    if not m:
        continue
    sid, chk, tier, verdict, msg = m.groups()
    res.setdefault(sid, []).append((chk, tier, verdict, msg.strip()))
out = ["# Seeded changes and what the checks made of them", "",
       "Each directory `seeded/<ID>-<n>/` holds a change to darklua produced by a fresh sub-agent that was given only",
       "the text of property <ID> and a scratch worktree: `patch.diff`, `meta.json` (its own description) and `demo/`",
       "(inputs, `run.sh`, and the output observed here on the original and on the changed code). Every change was",
       "re-confirmed before it was kept: applies on a clean checkout, compiles, the 3799 tests pass, the demonstration",
       "differs. `tools/seeded_run.sh <id> <tier> <check>...` applies one to /repo, runs checks, and restores /repo.",
       "The lines below are in the order the runs were made: a `missed` followed later by `CAUGHT` means the check was",
       "strengthened in between (DESIGN.md §16.3).", ""]
ids = sorted(d for d in os.listdir(root) if os.path.isdir(f'{root}/{d}'))
caught = missed = 0
caught_elsewhere = []
not_caught = []
for sid in ids:
    meta = json.load(open(f'{root}/{sid}/meta.json'))
    out.append(f"## {sid} — {meta.get('summary', '').strip()}")
    out.append("")
    out.append(f"*Trigger:* {meta.get('trigger', '').strip()}  ")
    out.append(f"*Files:* {', '.join(meta.get('files', []))}")
    out.append("")
    runs = res.get(sid, [])
    final = None
    for chk, tier, verdict, msg in runs:
        out.append(f"- `{chk}` {tier}: **{verdict}**" + (f" — {msg}" if msg else ""))
        if chk == sid.split('-')[0]:
            final = verdict
    if not runs:
        out.append("- not run yet")
    other = [chk for chk, tier, verdict, msg in runs if verdict == 'CAUGHT' and chk != sid.split('-')[0]]
    if final == 'CAUGHT':
        caught += 1
    elif other:
        caught_elsewhere.append(f"{sid} (by {other[-1]})")
    elif final is not None:
        missed += 1
        not_caught.append(f"{sid} ({final})")
    out.append("")
out.insert(10, f"**Summary (final state):** {len(ids)} confirmed changes; {caught} caught by the check of the property they were written against; {len(caught_elsewhere)} missed by that check but caught by the check of the property that owns the mechanism: {', '.join(caught_elsewhere)}; {missed} not decided: {', '.join(not_caught)}.")
out.insert(11, "")
if os.path.exists(f'{root}/rejected.txt'):
    out.append("## Not kept")
    out.append("")
    out.append("Deliveries that failed re-confirmation (see `rejected.txt`).")
open(f'{root}/RESULTS.md', 'w').write("\n".join(out) + "\n")
print(len(ids), 'seeded;', caught, 'caught;', missed, 'missed')
