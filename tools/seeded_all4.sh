#!/bin/bash
# seeded_all2.sh <PROP>: like seeded_all.sh for the fourth round (worktree /tmp/mut4-<PROP>, stored as <PROP>-r4-<n>)
p=$1; shift
for n in 1 2 3; do
  [ -d /tmp/mut4-$p/MUTANTS/$n ] || continue
  id=$p-r4-$n
  r=$(/verif/tools/seeded_confirm.sh /tmp/mut4-$p $n $id 2>&1 | grep -v "WARNING conda" | tail -2)
  echo "$id confirm: $(echo "$r" | tail -1)"
  echo "$r" | grep -q CONFIRMED || { echo "$id $r" >> /verif/seeded/rejected.txt; continue; }
  res=$(/verif/tools/seeded_run.sh $id quick $p "$@" 2>&1 | grep -v "WARNING conda")
  echo "$res"; echo "$res" >> /verif/seeded/results.txt
done
