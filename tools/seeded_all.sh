#!/bin/bash
# seeded_all.sh <PROP> [extra checks...]: confirm the (up to 3) changes delivered for a property in
# /tmp/mut-<PROP>, then run the property's own check (quick, and thorough when quick misses) on each
p=$1; shift
for n in 1 2 3; do
  [ -d /tmp/mut-$p/MUTANTS/$n ] || continue
  r=$(/verif/tools/seeded_confirm.sh /tmp/mut-$p $n $p-$n 2>&1 | grep -v "WARNING conda" | tail -2)
  echo "$p-$n confirm: $(echo "$r" | tail -1)"
  echo "$r" | grep -q CONFIRMED || { echo "$p-$n $r" >> /verif/seeded/rejected.txt; continue; }
  res=$(/verif/tools/seeded_run.sh $p-$n quick $p "$@" 2>&1 | grep -v "WARNING conda")
  echo "$res"; echo "$res" >> /verif/seeded/results.txt
  if echo "$res" | grep -q "^$p-$n $p quick missed"; then
    res=$(/verif/tools/seeded_run.sh $p-$n thorough $p 2>&1 | grep -v "WARNING conda")
    echo "$res"; echo "$res" >> /verif/seeded/results.txt
  fi
done
