#!/usr/bin/env python3
"""Regenerates MANIFEST.json from the table below (kept here so that it stays consistent)."""
import json, sys, os
BASE = "cd /repo && cargo nextest run --workspace --no-fail-fast --tool-config-file pb:/w/lib/nextest.toml --profile pb --test-threads 8 --offline"
CHECKS = {
 # id: (technique, level text, level note, design ref)
}
def load():
    here = os.path.dirname(os.path.abspath(__file__))
    table = json.load(open(os.path.join(here, "checks_table.json")))
    return table
def main():
    table = load()
    props = [json.loads(l)["id"] for l in open("/verif/properties.jsonl")]
    checks = []
    na = []
    for pid in props:
        e = table.get(pid)
        if not e or e.get("not_applicable"):
            na.append({"property_id": pid, "reason": (e or {}).get("not_applicable", "check not built yet (work in progress; see DESIGN.md section 6 for the planned check)")})
            continue
        checks.append({
            "property_id": pid,
            "quick_cmd": f"./check {pid} quick",
            "thorough_cmd": f"./check {pid} thorough",
            "evidence_file": f"/verif/evidence/{pid}.json",
            "replay_cmd_template": "./check --replay {path}",
            "engine": "dlv",
            "level_claimed": {"category": "exploration", "text": e["level_text"], "design_ref": e.get("design_ref", "DESIGN.md section 6")},
            "level_note": e["level_note"],
            "technique": e["technique"],
        })
    m = {
        "version": 1,
        "setup_cmd": "./check --build",
        "hooks": {
            "guard": "darklua_verif",
            "enable": "RUSTFLAGS=\"--cfg darklua_verif\" (set by ./check); no hook exists in /repo: every observation uses darklua's public API",
            "baseline_off_cmd": BASE,
            "source_commits": [],
            "add_only": True,
        },
        "engines": [{
            "name": "dlv",
            "path": "/verif/harness",
            "serves_properties": [c["property_id"] for c in checks],
            "kind_free_text": "Rust binary: proptest-driven choice-tape generators + exhaustive small-scope enumeration + independent Lua/Luau parser and interpreter as oracle; rebuilds against /repo's working tree through a cargo path dependency",
        }],
        "checks": checks,
        "notes": "All checks: ./check <ID> <quick|thorough>; exit 0 held / 1 VIOLATION / 2 inconclusive. Known findings: /verif/findings/known_findings.json.",
        "not_applicable": na,
    }
    json.dump(m, open("/verif/MANIFEST.json", "w"), indent=1)
    print("wrote MANIFEST.json with", len(checks), "checks,", len(na), "not applicable")
main()
