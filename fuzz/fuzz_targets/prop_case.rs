//! Coverage-guided driver for any tape-driven search phase of a property.
//! DLV_FUZZ_PROP / DLV_FUZZ_PHASE select the phase; the fuzzer's bytes are the choice tape of the
//! phase's generator, the oracle is the phase's own oracle (see harness/src/engine.rs fuzz_entry).
#![no_main]
use libfuzzer_sys::fuzz_target;

fuzz_target!(|data: &[u8]| {
    dlv::engine::fuzz_entry(data);
});
